#!/bin/bash
# Kill stray check/worker processes (kept in a file so the pattern is not on the invoking shell's own command line).
for pat in "selfval/run.py" "checks\.c[0-9]" "vlib.worker"; do
  for p in $(pgrep -f "$pat"); do [ "$p" != "$$" ] && kill -9 "$p" 2>/dev/null; done
done
rm -rf /tmp/nessai-mut-* /tmp/nessai-verif-* 2>/dev/null
true
