"""User-supplied proposal classes used by the workloads (the `uninformed_proposal` keyword accepts a class)."""
import numpy as np

from nessai.proposal import AnalyticProposal


class LeakyAnalyticProposal(AnalyticProposal):
    """An uninformed proposal that does not filter its draws: pool points inside a hole of the prior keep logP = -inf together with a likelihood value.
    The sampler's own filter (logP != -inf) is what must keep them out of the live set."""

    def populate(self, N=None):
        from nessai.livepoint import numpy_array_to_live_points

        N = N or self.poolsize
        lo = np.array([self.model.bounds[n][0] for n in self.model.names])
        hi = np.array([self.model.bounds[n][1] for n in self.model.names])
        self.samples = numpy_array_to_live_points(np.random.uniform(lo, hi, (N, len(lo))), self.model.names)
        with np.errstate(divide="ignore"):
            self.samples["logP"] = self.model.batch_evaluate_log_prior(self.samples)
        ok = np.isfinite(self.samples["logP"])
        if ok.any():
            self.samples["logL"][ok] = self.model.batch_evaluate_log_likelihood(self.samples[ok])
        if (~ok).any():
            # the value the user's likelihood would give; taken through the uncounted interface so the user-boundary log stays clean
            self.samples["logL"][~ok] = self.model.raw_log_likelihood(self.samples[~ok])
        self.indices = np.random.permutation(N).tolist()
        self.populated = True
