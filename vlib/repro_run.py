"""One seeded run in its own process; prints a JSON digest of the result-bearing outputs (C14)."""
import hashlib
import json
import os
import shutil
import sys


_SHARED = {}


def one(cfg, out, tag):
    import numpy as np
    from nessai.flowsampler import FlowSampler
    from vlib import zoo
    from vlib.runs import std_kwargs, ins_kwargs, quiet_logging, reset_globals, result_digest

    quiet_logging()
    reset_globals()
    v = cfg["variant"]
    if v.get("same_model"):
        # the very same model object for both runs of the process (likelihood counters are cumulative: the digest uses nessai's own counts)
        model = _SHARED.setdefault("model", zoo.make(cfg.get("model", "Ex2")))
    else:
        model = zoo.make(cfg.get("model", "Ex2"))
    model.delay_us = v.get("delay_us", 0)
    ins = cfg["sampler"] == "ins"
    if v.get("same_kwargs"):
        # the very same keyword-argument objects (nested dicts included) for both runs of the process, as in a script that defines its settings once
        kw = _SHARED.setdefault("kw", (ins_kwargs if ins else std_kwargs)(cfg["kwargs"]))
    else:
        kw = (ins_kwargs if ins else std_kwargs)(cfg["kwargs"])
    pool = None
    if v.get("user_pool"):
        import multiprocessing
        from nessai.utils.multiprocessing import initialise_pool_variables

        pool = multiprocessing.get_context("fork").Pool(v["user_pool"], initializer=initialise_pool_variables, initargs=(model,))
        kw["pool"] = pool
    if v.get("n_pool"):
        kw["n_pool"] = v["n_pool"]
    extra = {}
    for k in ("likelihood_chunksize", "parallelise_prior", "disable_vectorisation"):
        if v.get(k) is not None:
            extra[k] = v[k]
    d = os.path.join(out, tag)
    shutil.rmtree(d, ignore_errors=True)
    evals_before = int(getattr(model, "likelihood_evaluations", 0) or 0)   # the counter belongs to the model object: cumulative when the object is reused
    fs = FlowSampler(model, output=d, resume=False, importance_nested_sampler=ins, signal_handling=False, **extra, **kw)
    fs.run(plot=False, save=False)
    digest, evals = result_digest(fs, ins)
    if v.get("same_model"):
        evals = evals - evals_before
    try:
        fs.ns.close_pool()
        if pool is not None:
            pool.terminate()
    except Exception:
        pass
    ns = fs.ns
    n = len(ns.samples_unit) if ins else len(ns.nested_samples)
    first = (ns.samples_unit if ins else np.array(ns.nested_samples))[:3]
    return dict(digest=digest, evals=evals, n=n, logZ=repr(float(fs.logZ)), iterations=int(ns.iteration),
                head=[[float(r[nm]) for nm in model.names] for r in first], user_calls=model.b_calls, user_points=model.b_points)


def main():
    cfg = json.loads(sys.argv[1])
    out = sys.argv[2]
    res = [one(cfg, out, "a")]
    if cfg["variant"].get("twice"):
        res.append(one(cfg, out, "b"))
    print("RESULT " + json.dumps(res))


if __name__ == "__main__":
    main()
