"""C11 driver: runs a real FlowSampler run in this process and, at a chosen checkpoint write and at a chosen weights save, enumerates
crash points by forking: each forked child performs the *real* operation and dies with os._exit(137) at its crash point; the parent
snapshots the output directory, restores the pre-operation state and goes on.  Snapshots are verified by fresh processes (segment_run).

argv[1] = JSON: sampler, model, kwargs, workdir (cwd; output dir is the relative path 'run'), logdir, target_ckpt, target_train, prefixes (int)
"""
import builtins
import io
import json
import os
import shutil
import sys


def main():
    cfg = json.loads(sys.argv[1])
    os.makedirs(cfg["workdir"], exist_ok=True)
    os.chdir(cfg["workdir"])
    from vlib.common import assert_repo, jdump

    assert_repo()
    import torch
    from vlib.runs import std_kwargs, ins_kwargs, quiet_logging, reset_globals
    from vlib import zoo
    from vlib.digest import digest

    quiet_logging()
    reset_globals()
    from nessai.flowsampler import FlowSampler
    from nessai.samplers import base as sbase
    from nessai.flowmodel import base as fmbase
    import nessai.utils.io as nio

    OUT = "run"
    ABS_OUT = os.path.abspath(OUT)
    SNAP = os.path.abspath("snaps")
    shutil.rmtree(OUT, ignore_errors=True)
    shutil.rmtree(SNAP, ignore_errors=True)
    os.makedirs(SNAP)
    os.makedirs(cfg["logdir"], exist_ok=True)
    ins = cfg["sampler"] == "ins"
    kw = (ins_kwargs if ins else std_kwargs)(cfg["kwargs"])
    meta = []
    EVENTS = ("open", "os.rename", "os.remove", "os.replace", "shutil.move")

    def in_out(path):
        try:
            return os.path.abspath(str(path)).startswith(ABS_OUT)
        except Exception:
            return False

    def restore(pre):
        shutil.rmtree(OUT)
        shutil.copytree(pre, OUT)

    def enumerate_crashes(tag, call, target_suffix, torch_partial=False, info=None, target_path=None):
        """Fork one child per crash point; call() performs the real operation."""
        pre = os.path.join(SNAP, f"{tag}_pre")
        shutil.copytree(OUT, pre)
        # 1) recording pass in a child: the sequence of audited file-system events of the operation
        r, w = os.pipe()
        pid = os.fork()
        if pid == 0:
            os.close(r)
            ev = []

            def hook(e, a):
                if e in EVENTS and a and in_out(a[0]):
                    ev.append((e, os.path.relpath(os.path.abspath(str(a[0])), ABS_OUT), str(a[1]) if len(a) > 1 and e == "open" else ""))

            sys.addaudithook(hook)
            try:
                call()
            finally:
                os.write(w, json.dumps(ev).encode())
                os._exit(0)
        os.close(w)
        data = b""
        while True:
            b = os.read(r, 65536)
            if not b:
                break
            data += b
        os.waitpid(pid, 0)
        events = json.loads(data.decode() or "[]")
        # size of the fully written target file
        size = None
        for e_, f, mode_ in events:
            full = os.path.join(OUT, f.replace(".temp", ""))
            if e_ == "open" and f.endswith(target_suffix) and os.path.exists(full):
                size = os.path.getsize(full)
        if target_path is not None and os.path.exists(target_path):
            size = os.path.getsize(target_path)  # torch.save is not audited (C++ writer): take the size of the completed file directly
        restore(pre)
        specs = [("before_event", j) for j in range(len(events) + 1)]
        # ... and right after each operation has returned to Python (e.g. between a rename and the close/flush of a file object that is still open)
        specs += [("after_event", j) for j in range(len(events))]
        if size:
            nprefix = cfg.get("prefixes", 8)
            cand = sorted(set([0, 1, 2, size // 4, size // 2, size - 1] + [2 ** k for k in range(3, 31) if 2 ** k < size]))
            if len(cand) > nprefix:
                step = len(cand) / nprefix
                cand = sorted(set([cand[int(i * step)] for i in range(nprefix)] + [0, size - 1]))
            if torch_partial:
                specs += [("torch_prefix", L) for L in cand]
            else:
                specs += [("prefix", L) for L in cand]
        for kind, val in specs:
            pid = os.fork()
            if pid == 0:
                try:
                    if kind == "before_event":
                        cnt = [0]

                        def hook(e, a):
                            if e in EVENTS and a and in_out(a[0]):
                                if cnt[0] == val:
                                    os._exit(137)
                                cnt[0] += 1

                        sys.addaudithook(hook)
                    elif kind == "after_event":
                        cnt = [0]

                        def die(frame, event, arg):
                            os._exit(137)   # first trace event (line / return / call) after the operation has returned: buffered data of open files is lost

                        def hook(e, a):
                            if e in EVENTS and a and in_out(a[0]):
                                if cnt[0] == val:
                                    f = sys._getframe(1)
                                    while f is not None:
                                        f.f_trace = die
                                        f = f.f_back
                                    sys.settrace(die)
                                cnt[0] += 1

                        sys.addaudithook(hook)
                    elif kind == "prefix":
                        real_open = builtins.open

                        class Proxy:
                            def __init__(s, f):
                                s.f = f
                                s.n = 0

                            def write(s, b):
                                b = bytes(b)
                                if s.n + len(b) > val:
                                    s.f.write(b[: val - s.n])
                                    s.f.flush()
                                    os.fsync(s.f.fileno())
                                    os._exit(137)
                                s.n += len(b)
                                return s.f.write(b)

                            def __getattr__(s, k):
                                return getattr(s.f, k)

                            def __enter__(s):
                                return s

                            def __exit__(s, *a):
                                return s.f.__exit__(*a)

                        def po(file, mode="r", *a, **k):
                            f = real_open(file, mode, *a, **k)
                            if "w" in mode and "b" in mode and str(file).endswith(target_suffix) and in_out(file):
                                return Proxy(f)
                            return f

                        builtins.open = po
                        nio.open = po
                    elif kind == "torch_prefix":
                        real_save = torch.save

                        def ps(obj, path, *a, **k):
                            buf = io.BytesIO()
                            real_save(obj, buf)
                            b = buf.getvalue()
                            with open(path, "wb") as fh:
                                fh.write(b[:val])
                                fh.flush()
                                os.fsync(fh.fileno())
                            os._exit(137)

                        torch.save = ps
                        fmbase.torch.save = ps
                    call()
                finally:
                    os._exit(0)
            _, st = os.waitpid(pid, 0)
            name = f"{tag}_{kind}_{val}"
            shutil.copytree(OUT, os.path.join(SNAP, name))
            meta.append(dict(name=name, tag=tag, kind=kind, val=val, child_exit=os.WEXITSTATUS(st), size=size,
                             event=(events[val] if kind in ("before_event", "after_event") and val < len(events) else None), n_events=len(events), info=info))
            restore(pre)
        shutil.rmtree(pre)
        return events

    state = {"ckpt": 0, "train": 0, "seq": 0, "done_ckpt": False, "done_train": False}
    orig_dump = sbase.safe_file_dump

    def write_digest(data):
        state["seq"] += 1
        data._verif_ckpt_seq = state["seq"]
        d, arrays = digest(data)
        tmp = os.path.join(cfg["logdir"], f"digest-{state['seq']}.json.tmp")
        with open(tmp, "w") as f:
            f.write(jdump(dict(digest=d, arrays=arrays if ins else {})))
        os.replace(tmp, os.path.join(cfg["logdir"], f"digest-{state['seq']}.json"))
        return state["seq"]

    def dump(data, filename, module, save_existing=False):
        state["ckpt"] += 1
        seq = write_digest(data)
        if state["ckpt"] == cfg["target_ckpt"]:
            info = dict(what="checkpoint", iteration=int(data.iteration), prev_exists=os.path.exists(filename), new_seq=seq, prev_seq=seq - 1 if seq > 1 else None,
                        save_existing=bool(save_existing))
            ev = enumerate_crashes(f"ckpt{state['ckpt']}", lambda: orig_dump(data, filename, module, save_existing=save_existing), (".temp", os.path.basename(filename)), info=info)
            info["events"] = ev
            meta.append(dict(info=info))
            state["done_ckpt"] = True
        r = orig_dump(data, filename, module, save_existing=save_existing)
        maybe_finish()
        return r

    sbase.safe_file_dump = dump
    orig_sw = fmbase.FlowModel.save_weights

    def sw(self, weights_file):
        state["train"] += 1
        if state["train"] == cfg["target_train"] and state["ckpt"] >= 1:
            info = dict(what="weights", n=state["train"], weights_file=str(weights_file), last_seq=state["seq"])
            ev = enumerate_crashes(f"train{state['train']}", lambda: orig_sw(self, weights_file), "model.pt", torch_partial=True, info=info, target_path=str(weights_file))
            info["events"] = ev
            meta.append(dict(info=info))
            state["done_train"] = True
        elif state["train"] == cfg["target_train"]:
            cfg["target_train"] += 1  # no checkpoint completed yet: take the next weights save
        r = orig_sw(self, weights_file)
        maybe_finish()
        return r

    fmbase.FlowModel.save_weights = sw

    def maybe_finish():
        if (state["done_ckpt"] or not cfg["target_ckpt"]) and (state["done_train"] or not cfg["target_train"]):
            finish()

    def finish():
        with open("meta.json", "w") as f:
            f.write(jdump(dict(meta=meta, snap=SNAP, state=state)))
        os._exit(0)

    model = zoo.make(cfg["model"])
    fs = FlowSampler(model, output=OUT, resume=False, importance_nested_sampler=ins, signal_handling=False, **kw)
    fs.run(plot=False, save=False)
    finish()


if __name__ == "__main__":
    main()
