"""Oracles for C07: numerical Jacobians of the *implemented* inverse reparameterisation maps, regularity masks,
arithmetic-derived tolerances and the "original prior" model that a prime prior has to reproduce.

Nothing here re-implements a nessai map: every value that is compared comes from calling the real objects; the
functions below only decide *where* a finite difference is meaningful (distance from kinks / singular sets), *how big*
a step is, and what rounding the comparison has to allow (float64 rounding x condition of the expression).
"""
import numpy as np

EPS = np.finfo(float).eps
H = 1e-3            # relative finite-difference step (central differences with h and h/2 + one Richardson step)
KINK = 20.0         # finite differences only at points >= KINK*h (in units of the local step scale) from a kink


# ---------------------------------------------------------------------------------------------------------------
# wrappers around the real objects
# ---------------------------------------------------------------------------------------------------------------
def struct(names, n):
    from nessai.livepoint import empty_structured_array, get_dtype

    return empty_structured_array(n, dtype=get_dtype(list(names)))


def nonsampling_names():
    from nessai import config

    return list(config.livepoints.non_sampling_parameters)


class ObjMap:
    """A single reparameterisation object (or a CombinedReparameterisation) driven directly."""

    level = "object"

    def __init__(self, r, comps=None):
        self.r = r
        self.comps = list(comps) if comps is not None else [r]
        self.parameters = list(r.parameters)
        self.prime_parameters = list(r.prime_parameters)

    @property
    def has_prime_prior(self):
        return bool(self.r.has_prime_prior)

    def fwd(self, x, **kw):
        xp = struct(self.prime_parameters, x.size)
        lj = np.zeros(x.size)
        x2, xp, lj = self.r.reparameterise(x.copy(), xp, lj, **kw)
        return x2, xp, lj

    def inv(self, xp):
        x = struct(self.parameters, xp.size)
        lj = np.zeros(xp.size)
        x, _, lj = self.r.inverse_reparameterise(x, xp.copy(), lj)
        return x, lj

    def update(self, cloud):
        self.r.update(cloud)

    def reset(self):
        self.r.reset()

    def prime_prior(self, xp):
        return np.asarray(self.r.x_prime_log_prior(xp.copy()), dtype=float) + np.zeros(xp.size)

    def aux_log_prior(self, x):
        out = np.zeros(x.size)
        for c in self.comps:
            if c.has_prior:
                out = out + c.log_prior(x)
        return out


class PropMap:
    """A FlowProposal after set_rescaling(): rescale / inverse_rescale / check_state."""

    level = "proposal"

    def __init__(self, prop):
        self.prop = prop
        self.comps = list(prop._reparameterisation.values())
        self.parameters = list(prop.parameters)
        self.prime_parameters = list(prop.prime_parameters)

    @property
    def has_prime_prior(self):
        return bool(self.prop.use_x_prime_prior)

    def fwd(self, x, **kw):
        xp, lj = self.prop.rescale(x.copy(), **kw)
        ratio = max(1, xp.size // x.size)
        x2 = np.concatenate([x] * ratio) if ratio > 1 else x.copy()
        return x2, xp, lj

    def inv(self, xp):
        return self.prop.inverse_rescale(xp.copy())

    def update(self, cloud):
        self.prop.check_state(cloud)

    def reset(self):
        self.prop._reparameterisation.reset()

    def prime_prior(self, xp):
        return np.asarray(self.prop.x_prime_log_prior(xp.copy()), dtype=float) + np.zeros(xp.size)

    def aux_log_prior(self, x):
        return self.prop._reparameterisation.log_prior(x)


# ---------------------------------------------------------------------------------------------------------------
# regularity analysis: where may the inverse be differentiated, with which steps, and how ill-conditioned is log_J
# ---------------------------------------------------------------------------------------------------------------
def _post_kind(r):
    from nessai.utils import rescaling as rs

    if not getattr(r, "has_post_rescaling", False):
        return None
    f = r.post_rescaling
    return {rs.logit: "logit", rs.log_with_log_jacobian: "log", rs.exp_with_log_jacobian: "exp"}.get(f, "custom")


def analyse(comps, xr, xp, h=H):
    """Return (fd_ok, cond, steps, reasons) for the batch.

    fd_ok  — points at which a float64 central difference of the inverse is trustworthy (>= KINK steps from every
             kink/jump of the inverse, >= 1e-4 (relative) from every singularity of the map);
    cond   — condition number of the reported log-Jacobian with respect to rounding of its argument (>= 1);
    steps  — absolute step per prime parameter and point;
    reasons— how many points each exclusion removed.
    """
    from nessai.gw.reparameterisations import DeltaPhaseReparameterisation
    from nessai.reparameterisations import Angle, AnglePair, RescaleToBounds, ToCartesian

    n = xp.size
    ok = np.ones(n, bool)
    cond = np.ones(n)
    steps = {}
    reasons = {}

    def drop(mask, why):
        nonlocal ok
        k = int(np.sum(ok & ~mask))
        if k:
            reasons[why] = reasons.get(why, 0) + k
        ok &= mask

    with np.errstate(all="ignore"):
        for r in comps:
            if isinstance(r, Angle):  # Angle and ToCartesian
                X, Y = xp[r.prime_parameters[0]], xp[r.prime_parameters[1]]
                rad = np.hypot(X, Y)
                th = np.arctan2(Y, X)
                if isinstance(r, ToCartesian):
                    dist = np.minimum(np.abs(th), np.pi - np.abs(th))  # |angle| folds at 0 and at +-pi
                elif r._zero_bound:
                    dist = np.abs(th)  # jump of arctan2 % 2pi
                else:
                    dist = np.pi - np.abs(th)  # jump of arctan2
                drop(dist >= KINK * h, "angle: within 20 steps of the branch cut / fold of the inverse")
                drop(rad > 0, "angle: zero radius")
                steps[r.prime_parameters[0]] = h * rad
                steps[r.prime_parameters[1]] = h * rad
            elif isinstance(r, AnglePair):
                X, Y, Z = (xp[p] for p in r.prime_parameters)
                rho = np.hypot(X, Y)
                rad = np.sqrt(X ** 2 + Y ** 2 + Z ** 2)
                th = np.arctan2(Y, X)
                dist = np.abs(th) if r._modulo_2pi else np.pi - np.abs(th)
                drop(dist >= KINK * h, "angle-pair: within 20 steps of the branch cut of the horizontal angle")
                drop(rho >= 1e-3 * rad, "angle-pair: within 1e-3 rad of a pole (float64 differences ill-conditioned)")
                drop(rad > 0, "angle-pair: zero radius")
                steps[r.prime_parameters[0]] = h * rho
                steps[r.prime_parameters[1]] = h * rho
                steps[r.prime_parameters[2]] = h * rad
                cond = cond + rad / np.maximum(rho, 1e-300)  # d log cos(dec) = tan(dec) d dec
            elif isinstance(r, RescaleToBounds):
                post = _post_kind(r)
                for p, pp in zip(r.parameters, r.prime_parameters):
                    v = xp[pp]
                    if post == "logit":
                        u = 1.0 / (1.0 + np.exp(-v))
                        drop(np.minimum(u, 1 - u) >= 1e-4, "logit: closer than 1e-4 of the range to a bound (float64 differences)")
                        cond = cond + 1.0 / np.maximum(1 - u, 1e-300) + np.abs(v)
                        st = np.full(n, h)
                    elif post == "log":
                        u = np.exp(v)
                        drop(u >= 1e-4, "log: closer than 1e-4 of the range to the lower bound (float64 differences)")
                        cond = cond + np.abs(v)
                        st = np.full(n, h)
                    elif post == "exp":
                        st = h * np.abs(v)
                    else:
                        st = h * np.maximum(1.0, np.abs(v))
                    if r.boundary_inversion and p in r.boundary_inversion and r._edges and r._edges.get(p):
                        drop(np.abs(v) >= KINK * st, "inversion: within 20 steps of the fold |x'| = 0")
                    steps[pp] = st
                    if getattr(r, "has_pre_rescaling", False) and p in xr.dtype.names:
                        cond = cond + np.abs(np.log(np.abs(xr[p]) + 1e-300))  # power-law / log converters: (k-1) log d
            elif isinstance(r, DeltaPhaseReparameterisation):
                pp = r.prime_parameters[0]
                steps[pp] = h * np.maximum(1.0, np.abs(xp[pp]))
                drop(np.abs(np.cos(xr["theta_jn"])) >= 0.1, "delta-phase: sign(cos theta_jn) flips nearby")
                ph = xr[r.parameters[0]]
                drop((ph >= 0.1) & (ph <= 2 * np.pi - 0.1), "delta-phase: within 0.1 rad of the modulo jump")
            else:  # ScaleAndShift, Rescale, NullReparameterisation: linear
                for pp in r.prime_parameters:
                    steps[pp] = h * np.maximum(1.0, np.abs(xp[pp]))
    return ok, cond, steps, reasons


def numeric_log_det_inverse(m, xp, steps, idx, rounds=4, conv_tol=1e-8):
    """log|det d x / d x'| of the implemented inverse at xp[idx].

    Central differences with steps s, s/2, s/4 give two Richardson values; a point is accepted when the two resulting
    log|det| agree to conv_tol, otherwise s is divided by 4 and the point is tried again (up to `rounds` times): the
    nominal step may be too coarse where a pre-rescaling (exp, log, power law) has a short curvature scale.  Points
    that never converge are returned as NaN *and* flagged in the second return value (they carry no information
    about the map; the caller counts them).  The third return value estimates the float64 rounding noise of the
    result (large when |x| >> range, e.g. a GPS time of 1e9 s with a 0.2 s window).
    """
    P, Q = m.prime_parameters, m.parameters
    base = xp[idx]
    k = base.size
    if len(P) != len(Q):
        return None, None, None
    out = np.full(k, np.nan)
    noise = np.full(k, np.inf)
    active = np.ones(k, bool)
    x0, _ = m.inv(base)
    absx = np.stack([np.abs(x0[q]) for q in Q], axis=1)  # (k, nq)

    def diffs(pp, st):
        a, b = base.copy(), base.copy()
        a[pp] = base[pp] + st
        b[pp] = base[pp] - st
        xa, _ = m.inv(a)
        xb, _ = m.inv(b)
        den = a[pp] - b[pp]  # the realised step
        with np.errstate(all="ignore"):
            return np.stack([(xa[q] - xb[q]) / den for q in Q], axis=1)

    for rnd in range(rounds):
        f = 4.0 ** (-rnd)
        J1 = np.zeros((k, len(Q), len(P)))
        J2 = np.zeros((k, len(Q), len(P)))
        for j, pp in enumerate(P):
            st = steps[pp][idx] * f
            d1, d2, d4 = diffs(pp, st), diffs(pp, st / 2), diffs(pp, st / 4)
            J1[:, :, j] = (4.0 * d2 - d1) / 3.0
            J2[:, :, j] = (4.0 * d4 - d2) / 3.0
        with np.errstate(all="ignore"):
            J1 = np.where(np.isfinite(J1), J1, 0.0)
            J2 = np.where(np.isfinite(J2), J2, 0.0)
            ld1 = np.linalg.slogdet(J1)[1]
            ld2 = np.linalg.slogdet(J2)[1]
            conv = np.isfinite(ld1) & np.isfinite(ld2) & (np.abs(ld1 - ld2) <= conv_tol)
            # rounding of the differences: d(log det) = tr(J^-1 dJ), dJ[q, j] ~ 4 eps |x_q| / step_j (float64 resolution of the outputs)
            try:
                Jinv = np.abs(np.linalg.inv(np.where(conv[:, None, None], J2, np.eye(len(P)))))
            except np.linalg.LinAlgError:
                Jinv = np.full(J2.shape, np.inf)
            st_all = np.stack([steps[pp][idx] * f for pp in P], axis=1)  # (k, np)
            nz = np.einsum("kjq,kq,kj->k", Jinv, absx, 1.0 / np.where(st_all > 0, st_all, np.inf)) * 4 * EPS
        take = active & conv
        out[take] = ld2[take]
        noise[take] = nz[take]
        active &= ~conv
        if not active.any():
            break
    return out, active, noise


# ---------------------------------------------------------------------------------------------------------------
# the prior in the original space that a prime prior claims to represent (up to a constant)
# ---------------------------------------------------------------------------------------------------------------
def original_log_prior(comps, x2, xr):
    """log pi(x) + log pi_aux(r) (unnormalised) under the documented assumption of each class that offers a prime prior.

    RescaleToBounds(prior='uniform'): uniform on the box; DistanceReparameterisation(prior='power-law'): d**power;
    Angle(prior='uniform'|'sine'): uniform | sin(angle), radius chi(2); ToCartesian: uniform, radius chi(2);
    AnglePair(prior='isotropic'): cos(dec) | sin(zen), radius chi(3).
    """
    from scipy import stats

    from nessai.reparameterisations import Angle, AnglePair, RescaleToBounds

    def get(p):
        if p in x2.dtype.names and not np.all(np.isnan(x2[p])):
            return x2[p]
        return xr[p]

    out = np.zeros(x2.size)
    with np.errstate(all="ignore"):
        for r in comps:
            if isinstance(r, Angle):
                out = out + stats.chi(2).logpdf(get(r.parameters[1]))
                if getattr(r, "prior", None) == "sine":
                    out = out + np.log(np.sin(get(r.parameters[0])))
            elif isinstance(r, AnglePair):
                out = out + stats.chi(3).logpdf(get(r.parameters[2]))
                v = get(r.parameters[1])
                out = out + (np.log(np.sin(v)) if r.convention == "az-zen" else np.log(np.cos(v)))
            elif isinstance(r, RescaleToBounds):
                dc = getattr(r, "distance_converter", None)
                if dc is not None and hasattr(dc, "power"):
                    out = out + dc.power * np.log(get(r.parameters[0]))
    return out


# ---------------------------------------------------------------------------------------------------------------
# elementary maps of nessai/utils/rescaling.py (and the power-law distance converter) in extended precision
# ---------------------------------------------------------------------------------------------------------------
def elementary_check(f, finv, u, sing_dist):
    """f, finv: functions returning (value, log_jacobian), evaluated in np.longdouble at the points u.

    sing_dist: distance of each point from the nearest singularity of f (sets the step: 1e-4 of that distance, so
    u +- step stays in the domain).  Both directions are differentiated (central differences h, h/2 + Richardson);
    each direction is *used* only where its rounding estimate eps_ld*|value|/(|derivative|*step) is below 1e-10 —
    close to a singularity the contracting direction loses all digits even in extended precision.
    """
    LD = np.longdouble
    eps = np.finfo(LD).eps
    u = np.asarray(u, dtype=LD)
    sd = np.asarray(sing_dist, dtype=LD) + np.zeros_like(u)
    with np.errstate(all="ignore"):
        y, lj = f(u)
        y = np.asarray(y, dtype=LD)
        lj = np.asarray(lj, dtype=LD) + np.zeros_like(u)
        ub, lji = finv(y)
        ub = np.asarray(ub, dtype=LD)
        lji = np.asarray(lji, dtype=LD) + np.zeros_like(u)
        du = LD(1e-4) * sd
        # snap the step to a multiple of 4 grid spacings (>= 8) so that u +- du and u +- du/2 are representable and symmetric
        sp = np.spacing(np.abs(u)) * 4
        du = np.maximum(np.ceil(du / sp), LD(2)) * sp
        d = []
        for fac in (LD(1.0), LD(0.5)):
            a, b = u + fac * du, u - fac * du
            d.append((np.asarray(f(a)[0], dtype=LD) - np.asarray(f(b)[0], dtype=LD)) / (a - b))
        dfwd = (4 * d[1] - d[0]) / 3
        dy = np.abs(dfwd) * du
        d = []
        for fac in (LD(1.0), LD(0.5)):
            a, b = y + fac * dy, y - fac * dy
            d.append((np.asarray(finv(a)[0], dtype=LD) - np.asarray(finv(b)[0], dtype=LD)) / (a - b))
        dinv = (4 * d[1] - d[0]) / 3
        est_fwd = 16 * eps * (np.abs(y) + np.abs(dfwd) * du) / (np.abs(dfwd) * du)
        est_inv = 16 * eps * (np.abs(u) + np.abs(dinv) * dy) / (np.abs(dinv) * dy)
        return dict(
            y=y, round_trip=np.abs(ub - u), pair=np.abs(lj + lji),
            jac_fwd=np.abs(lj - np.log(np.abs(dfwd))), jac_inv=np.abs(lji - np.log(np.abs(dinv))),
            use_fwd=est_fwd < 1e-10, use_inv=est_inv < 1e-10, lj=lj,
        )
