"""C19 oracle: standard readers for nessai result files and the canonical comparison with the in-memory dictionary.

The readers use nothing of nessai: ``json.load`` and a recursive ``h5py`` walk with the documented None encoding.
The comparison is format-aware only where the formats differ *by design*:

* JSON has no arrays: an ndarray / list / tuple is a (nested) list; a structured array is a list of rows whose entries
  are the columns in dtype order (``ndarray.tolist()``); ``posterior_samples`` of a real result is a dict keyed by
  field name (``FlowSampler.save_results`` converts it);
* HDF5 has no lists: a list of scalars is a 1-d dataset, a list of equal-length arrays a 2-d dataset, ``None`` is the
  string ``"__none__"``, a nested dict is a group.

Everything else is strict: same key set at every level, integers read back as integers, floats as floats with the same
value (every NaN equals every NaN, the sign of zero counts, longdouble values are compared as longdouble), booleans as
booleans, arrays with the same shape and - in HDF5, which stores it - the same dtype.
"""
import json

import numpy as np

NONE_TOKEN = "__none__"


# ---------------------------------------------------------------------------------------------------------------
# readers
# ---------------------------------------------------------------------------------------------------------------
def read_json(path):
    with open(path) as f:
        return json.load(f)


def _decode_h5(x):
    if isinstance(x, bytes):
        x = x.decode()
    if isinstance(x, str):
        return None if x == NONE_TOKEN else x
    if isinstance(x, np.ndarray) and x.dtype.kind in "OS" and x.dtype.names is None:
        return [_decode_h5(v) for v in x.tolist()]
    return x


def _walk_h5(group):
    import h5py

    out = {}
    for k, v in group.items():
        if isinstance(v, h5py.Group):
            out[k] = _walk_h5(v)
        else:
            out[k] = _decode_h5(v[()])
    return out


def read_hdf5(path):
    import h5py

    with h5py.File(path, "r") as f:
        return _walk_h5(f)


def read_back(path, fmt):
    return read_json(path) if fmt == "json" else read_hdf5(path)


# ---------------------------------------------------------------------------------------------------------------
# type names / path patterns (mechanism keys never contain indices or values)
# ---------------------------------------------------------------------------------------------------------------
def type_name(v):
    if v is None:
        return "None"
    if isinstance(v, dict):
        return "dict"
    if isinstance(v, (bool, np.bool_)):
        return "bool" if isinstance(v, bool) else "np.bool"
    if isinstance(v, np.generic):
        return "np." + type(v).__name__
    if isinstance(v, (int, float, str)):
        return type(v).__name__
    if isinstance(v, np.ndarray):
        if v.dtype.names:
            return "struct-array"
        return f"array-{v.dtype.name}-{v.ndim}d"
    if isinstance(v, (list, tuple)):
        return type(v).__name__
    return "object-" + type(v).__name__


def short_type(v):
    if isinstance(v, np.ndarray):
        return f"ndarray{v.shape}:{v.dtype.names and 'struct' or v.dtype}"
    return type(v).__name__


class Problems:
    """Collects at most one problem per (pattern, what)."""

    def __init__(self, fmt, with_path=True):
        self.fmt = fmt
        self.items = {}
        self.values = 0
        self.with_path = with_path

    def add(self, pattern, memtype, what, detail=""):
        # the generator's extra nesting level is not part of the mechanism
        pattern = "/".join(seg for seg in pattern.split("/") if seg != "deeper")
        if self.with_path:
            key = f"C19:{self.fmt}:{memtype}-at-{pattern or '<root>'}:{what}"
        else:  # config.json: the keyword a value sits under is not part of the mechanism
            key = f"C19:{self.fmt}:{memtype}:{what}"
            detail = f"at {pattern or '<root>'}: {detail}"
        if key not in self.items:
            self.items[key] = str(detail)[:300]

    def as_list(self):
        return [[k, v] for k, v in self.items.items()]


# ---------------------------------------------------------------------------------------------------------------
# scalar rules
# ---------------------------------------------------------------------------------------------------------------
def _is_int(v):
    return isinstance(v, (int, np.integer)) and not isinstance(v, (bool, np.bool_))


def _is_float(v):
    return isinstance(v, (float, np.floating))


def _is_bool(v):
    return isinstance(v, (bool, np.bool_))


def float_same(a, b):
    """Same value as longdouble; NaN equals NaN; -0.0 differs from 0.0."""
    a = np.longdouble(a)
    b = np.longdouble(b)
    if np.isnan(a) or np.isnan(b):
        return bool(np.isnan(a) and np.isnan(b))
    return bool(a == b and np.signbit(a) == np.signbit(b))


def cmp_scalar(mem, back, pat, P):
    P.values += 1
    mt = type_name(mem)
    if mem is None:
        if back is not None:
            P.add(pat, mt, "read-back-as-" + type_name(back), repr(back)[:60])
        return
    if isinstance(mem, str):
        if not isinstance(back, str):
            P.add(pat, mt, "read-back-as-" + type_name(back), repr(back)[:60])
        elif back != mem:
            P.add(pat, mt, "value-differs", (mem[:40], back[:40]))
        return
    if _is_bool(mem):
        if not _is_bool(back):
            P.add(pat, mt, "read-back-as-" + type_name(back), repr(back)[:60])
        elif bool(back) != bool(mem):
            P.add(pat, mt, "value-differs", (mem, back))
        return
    if _is_int(mem):
        if not _is_int(back):
            P.add(pat, mt, "read-back-as-" + type_name(back), (repr(mem), repr(back)[:60]))
        elif int(back) != int(mem):
            P.add(pat, mt, "value-differs", (int(mem), int(back)))
        return
    if _is_float(mem):
        if not _is_float(back):
            P.add(pat, mt, "read-back-as-" + type_name(back), (repr(mem), repr(back)[:60]))
        elif not float_same(mem, back):
            if isinstance(mem, np.longdouble) and not isinstance(back, np.longdouble) and float_same(np.float64(mem), back):
                P.add(pat, mt, "rounded-to-float64", (repr(mem), repr(back)))
            else:
                P.add(pat, mt, "value-differs", (repr(mem), repr(back)))
        return
    raise TypeError(type(mem))


def _flat(x):
    if isinstance(x, (list, tuple)):
        for y in x:
            yield from _flat(y)
    else:
        yield x


def _list_shape(x):
    """Shape of a rectangular nested list (None if ragged)."""
    if not isinstance(x, list):
        return ()
    if not x:
        return (0,)
    subs = [_list_shape(y) for y in x]
    if any(s is None or s != subs[0] for s in subs):
        return None
    return (len(x),) + subs[0]


def _bits_equal(a, b):
    """Element-wise float_same for two float arrays of the same shape and dtype."""
    with np.errstate(invalid="ignore"):
        ok = ((a == b) & (np.signbit(a) == np.signbit(b))) | (np.isnan(a) & np.isnan(b))
    return ok


def cmp_plain_column(mem, back_list, pat, mt, P, label=""):
    """mem: plain ndarray (any shape); back_list: what JSON gave (nested list or scalar for 0-d)."""
    P.values += int(mem.size)
    if mem.ndim == 0:
        cmp_scalar(mem[()], back_list, pat, P)
        return
    if not isinstance(back_list, list):
        P.add(pat, mt, "read-back-as-" + type_name(back_list) + label, repr(back_list)[:60])
        return
    shape = _list_shape(back_list)
    if mem.size == 0:
        # an empty array with a zero-length axis can only be written as nested empty lists
        if len(list(_flat(back_list))) != 0:
            P.add(pat, mt, "shape-differs" + label, (mem.shape, shape))
        elif shape is not None and shape != mem.shape and not (len(shape) <= mem.ndim and shape == mem.shape[: len(shape)]):
            P.add(pat, mt, "shape-differs" + label, (mem.shape, shape))
        return
    if shape != mem.shape:
        P.add(pat, mt, "shape-differs" + label, (mem.shape, shape))
        return
    flat = list(_flat(back_list))
    kind = mem.dtype.kind
    if kind == "f":
        bad = [x for x in flat if type(x) is not float]
        if bad:
            P.add(pat, mt, "element-read-back-as-" + type_name(bad[0]) + label, repr(bad[0])[:60])
            return
        if mem.dtype.itemsize > 8:
            for m, b in zip(mem.reshape(-1), flat):
                if not float_same(m, b):
                    what = "rounded-to-float64" if float_same(np.float64(m), b) else "value-differs"
                    P.add(pat, mt, what + label, (repr(m), repr(b)))
                    return
            return
        b = np.array(flat, dtype=np.float64).reshape(mem.shape)
        ok = _bits_equal(mem.astype(np.float64), b)
        if not ok.all():
            i = int(np.argmin(ok.reshape(-1)))
            P.add(pat, mt, "value-differs" + label, (repr(mem.reshape(-1)[i]), repr(flat[i]), f"{int((~ok).sum())} of {ok.size}"))
    elif kind in "iu":
        bad = [x for x in flat if type(x) is not int]
        if bad:
            P.add(pat, mt, "element-read-back-as-" + type_name(bad[0]) + label, repr(bad[0])[:60])
            return
        if [int(x) for x in mem.reshape(-1)] != flat:
            P.add(pat, mt, "value-differs" + label)
    elif kind == "b":
        bad = [x for x in flat if type(x) is not bool]
        if bad:
            P.add(pat, mt, "element-read-back-as-" + type_name(bad[0]) + label, repr(bad[0])[:60])
            return
        if [bool(x) for x in mem.reshape(-1)] != flat:
            P.add(pat, mt, "value-differs" + label)
    else:
        if [str(x) for x in mem.reshape(-1)] != [str(x) for x in flat]:
            P.add(pat, mt, "value-differs" + label)


def cmp_array_h5(mem, back, pat, mt, P, label="", exact_dtype=True):
    P.values += int(mem.size)
    if not isinstance(back, (np.ndarray, np.generic)):
        P.add(pat, mt, "read-back-as-" + type_name(back) + label, repr(back)[:60])
        return
    back = np.asarray(back)
    if back.shape != mem.shape:
        P.add(pat, mt, "shape-differs" + label, (mem.shape, back.shape))
        return
    if exact_dtype and back.dtype != mem.dtype:
        P.add(pat, mt, f"dtype-read-back-as-{back.dtype.name}" + label, (str(mem.dtype), str(back.dtype)))
        return
    if mem.dtype.kind == "f":
        if back.dtype.kind != "f":
            P.add(pat, mt, f"dtype-read-back-as-{back.dtype.name}" + label)
            return
        wide = np.longdouble
        ok = _bits_equal(mem.astype(wide), back.astype(wide))
        if not ok.all():
            i = int(np.argmin(ok.reshape(-1)))
            P.add(pat, mt, "value-differs" + label, (repr(mem.reshape(-1)[i]), repr(back.reshape(-1)[i]), f"{int((~ok).sum())} of {ok.size}"))
    else:
        if back.dtype.kind != mem.dtype.kind or not np.array_equal(mem, back):
            P.add(pat, mt, "value-differs" + label, (str(mem.dtype), str(back.dtype)))


# ---------------------------------------------------------------------------------------------------------------
# the canonical comparison
# ---------------------------------------------------------------------------------------------------------------
def compare(mem, back, fmt, by_name=()):
    """Compare the in-memory dictionary with what the standard reader returned.

    by_name: top-level keys whose structured array is, by design of FlowSampler.save_results, stored as a dict keyed by
    field name in JSON mode.  Returns (problems [[key, detail], ...], number of values compared).
    """
    P = Problems(fmt)
    _cmp(mem, back, fmt, "", P, by_name=set(by_name) if fmt == "json" else set())
    return P.as_list(), P.values


def _cmp(mem, back, fmt, pat, P, by_name=frozenset()):
    mt = type_name(mem)
    if isinstance(mem, dict):
        if not isinstance(back, dict):
            P.add(pat, mt, "read-back-as-" + type_name(back), repr(back)[:60])
            return
        mk = {str(k): k for k in mem}
        missing = sorted(set(mk) - set(back))
        extra = sorted(set(back) - set(mk))
        if missing or extra:
            P.add(pat, mt, "key-set-differs", dict(missing=missing[:6], extra=extra[:6]))
        for ks, k in mk.items():
            if ks in back:
                sub = f"{pat}/{ks}" if pat else ks
                if not pat and ks in by_name and isinstance(mem[k], np.ndarray) and mem[k].dtype.names:
                    _cmp_struct_by_name(mem[k], back[ks], sub, P)
                else:
                    _cmp(mem[k], back[ks], fmt, sub, P)
        return
    if mem is None or isinstance(mem, (str, bool, int, float, np.generic)):
        if isinstance(back, np.ndarray) and back.ndim == 0:
            back = back[()]
        cmp_scalar(mem, back, pat, P)
        return
    if isinstance(mem, np.ndarray):
        if mem.dtype.names:
            _cmp_struct(mem, back, fmt, pat, P)
        elif fmt == "json":
            cmp_plain_column(mem, back, pat, mt, P)
        else:
            cmp_array_h5(mem, back, pat, mt, P)
        return
    if isinstance(mem, (list, tuple)):
        if fmt == "json":
            if not isinstance(back, list):
                P.add(pat, mt, "read-back-as-" + type_name(back), repr(back)[:60])
                return
        else:
            if isinstance(back, np.ndarray) and back.dtype.names is None and back.ndim >= 1:
                pass
            elif isinstance(back, list):  # decoded array of strings
                pass
            else:
                P.add(pat, mt, "read-back-as-" + type_name(back), repr(back)[:60])
                return
        if len(back) != len(mem):
            P.add(pat, mt, "length-differs", (len(mem), len(back)))
            return
        dts = {x.dtype for x in mem if isinstance(x, np.ndarray)}
        uniform = len(dts) == 1 and all(isinstance(x, np.ndarray) for x in mem)
        for m, b in zip(mem, back):
            if fmt != "json" and isinstance(m, np.ndarray) and not m.dtype.names:
                # a list of equal-length arrays is one 2-d dataset whose dtype is the common dtype of the list
                cmp_array_h5(m, b, pat + "[]", type_name(m), P, exact_dtype=uniform)
            else:
                _cmp(m, b, fmt, pat + "[]", P)
        return
    # anything else is not serialisable: JSON must hold a string, HDF5 cannot hold it at all
    P.values += 1
    if not isinstance(back, str):
        P.add(pat, mt, "read-back-as-" + type_name(back), repr(back)[:60])


def _cmp_struct(mem, back, fmt, pat, P):
    names = mem.dtype.names
    if fmt == "json":
        if not isinstance(back, list):
            P.add(pat, "struct-array", "read-back-as-" + type_name(back), repr(back)[:60])
            return
        if len(back) != len(mem):
            P.add(pat, "struct-array", "length-differs", (len(mem), len(back)))
            return
        if mem.ndim != 1:
            P.add(pat, "struct-array", "unsupported-ndim", mem.shape)
            return
        if any(not isinstance(r, list) or len(r) != len(names) for r in back):
            P.add(pat, "struct-array", "row-width-differs", (len(names), repr(back[0])[:80] if back else None))
            return
        for i, n in enumerate(names):
            cmp_plain_column(mem[n], [r[i] for r in back], pat, "struct-array", P, label=f":column-{mem.dtype[n].kind}")
        return
    if not isinstance(back, np.ndarray) or not back.dtype.names:
        P.add(pat, "struct-array", "read-back-as-" + type_name(back), repr(back)[:60])
        return
    if tuple(back.dtype.names) != tuple(names):
        P.add(pat, "struct-array", "field-names-differ", (names, back.dtype.names))
        return
    if back.shape != mem.shape:
        P.add(pat, "struct-array", "length-differs", (mem.shape, back.shape))
        return
    for n in names:
        cmp_array_h5(np.ascontiguousarray(mem[n]), np.ascontiguousarray(back[n]), pat, "struct-array", P, label=f":column-{mem.dtype[n].kind}")


def _cmp_struct_by_name(mem, back, pat, P):
    names = mem.dtype.names
    if not isinstance(back, dict):
        P.add(pat, "struct-array", "not-stored-by-field-name", type_name(back))
        return
    if set(back) != set(names):
        P.add(pat, "struct-array", "field-names-differ", (names, sorted(back)))
        return
    for n in names:
        cmp_plain_column(mem[n], back[n], pat, "struct-array", P, label=f":column-{mem.dtype[n].kind}")


# ---------------------------------------------------------------------------------------------------------------
# in-memory equality (fresh result dictionary against the dictionary handed to the writer)
# ---------------------------------------------------------------------------------------------------------------
def mem_equal(a, b):
    if a is b:
        return True
    if isinstance(a, dict):
        return isinstance(b, dict) and list(map(str, a)) == list(map(str, b)) and all(mem_equal(a[k], b[k]) for k in a)
    if isinstance(a, np.ndarray):
        return isinstance(b, np.ndarray) and a.dtype == b.dtype and a.shape == b.shape and a.tobytes() == b.tobytes()
    if isinstance(a, (list, tuple)):
        return isinstance(b, (list, tuple)) and len(a) == len(b) and all(mem_equal(x, y) for x, y in zip(a, b))
    if type(a) is not type(b):
        return False
    if _is_float(a):
        return float_same(a, b)
    try:
        return bool(a == b)
    except Exception:
        return False
