"""Arbitrary-precision reference for the documented nested-sampling quadrature (independent of nessai).

Rule (as documented): shrinkage per iteration log t_i = -1/n_i ("logt") or -log(1+1/n_i) ("t");
log X_k = sum_{i<=k} log t_i, X_0 = 1; rectangle running evidence Z_k = sum_{i<=k} L_i (X_{i-1}-X_i);
final evidence = trapezoid over the points (X_0=1,L=0), (X_i,L_i), closing point (X=0, L_last);
posterior weights p_i = L_i (X_{i-1}-X_i) / Z_trap.
"""
import mpmath as mp

mp.mp.dps = 60
NINF = mp.mpf("-inf")


def _exp(x):
    return mp.mpf(0) if x == NINF else mp.exp(x)


def _log(x):
    return NINF if x == 0 else mp.log(x)


def reference(logLs, nlives, expectation="logt"):
    """Return dict of mp quantities: log_vols (len N+1), logZ_rect (len N), logZ_trap, log_post_w (len N), info_rect."""
    N = len(logLs)
    assert len(nlives) == N
    logX = [mp.mpf(0)]
    for n in nlives:
        n = mp.mpf(float(n))
        lt = -1 / n if expectation == "logt" else -mp.log1p(1 / n)
        logX.append(logX[-1] + lt)
    X = [_exp(v) for v in logX]
    # common offset so that huge |logL| do not matter for mp either (mp has unbounded exponents; keep anyway)
    finite = [float(v) for v in logLs if v != float("-inf")]
    off = mp.mpf(max(finite)) if finite else mp.mpf(0)
    L = [_exp(mp.mpf(float(v)) - off) if v != float("-inf") else mp.mpf(0) for v in logLs]
    widths = [X[i] - X[i + 1] for i in range(N)]
    z = mp.mpf(0)
    logZ_rect = []
    for i in range(N):
        z += L[i] * widths[i]
        logZ_rect.append(_log(z) + off if z != 0 else NINF)
    # trapezoid with closing point
    Lp = [mp.mpf(0)] + L + [L[-1]]
    Xp = X + [mp.mpf(0)]
    zt = mp.mpf(0)
    for k in range(N + 1):
        zt += (Lp[k] + Lp[k + 1]) / 2 * (Xp[k] - Xp[k + 1])
    logZ_trap = _log(zt) + off if zt != 0 else NINF
    log_post = [(_log(L[i] * widths[i]) - _log(zt)) if (L[i] != 0 and zt != 0) else NINF for i in range(N)]
    return dict(log_vols=logX, logZ_rect=logZ_rect, logZ_trap=logZ_trap, log_post_w=log_post)


def info_recurrence(logLs, nlives, expectation="logt"):
    """nessai's documented information recurrence (rectangle rule), evaluated in mp.  Returns final H."""
    logw = mp.mpf(0)
    logZ = NINF
    info = mp.mpf(0)
    for v, n in zip(logLs, nlives):
        n = mp.mpf(float(n))
        lt = -1 / n if expectation == "logt" else -mp.log1p(1 / n)
        lv = mp.mpf(float(v)) if v != float("-inf") else NINF
        Wt = logw + lv + mp.log1p(-mp.exp(lt)) if lv != NINF else NINF
        old = logZ
        if logZ == NINF:
            logZ = Wt
        elif Wt != NINF:
            m = max(logZ, Wt)
            logZ = m + mp.log(mp.exp(logZ - m) + mp.exp(Wt - m))
        if old != NINF and logZ != NINF and lv != NINF:
            info = mp.exp(Wt - logZ) * lv + mp.exp(old - logZ) * (info + old) - logZ
        logw += lt
    return info
