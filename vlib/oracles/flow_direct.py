"""Independent reference evaluation of a nessai flow (C08).

The reference never calls nessai's own density code (`NFlow.log_prob`, `forward_and_log_prob`, `sample_and_log_prob`,
`base_distribution_log_prob`): it walks the list of glasflow transforms of the model itself, adds up the log-determinants
and uses the closed form of the base density.  Only the LARS base (no closed form) is evaluated through the glasflow
distribution object.
"""
import math

import numpy as np


def _transform_list(model):
    return list(model._transform._transforms)


def direct_forward(model, x):
    """x -> z, log|det dz/dx| by composing the transforms one by one (torch tensors, eval mode, no grad)."""
    import torch

    with torch.no_grad():
        z = x
        total = torch.zeros(x.shape[0], dtype=x.dtype)
        for t in _transform_list(model):
            z, ld = t.forward(z, context=None)
            total = total + ld
    return z, total


def direct_inverse(model, z):
    """z -> x, log|det dx/dz| by composing the inverse transforms in reverse order."""
    import torch

    with torch.no_grad():
        x = z
        total = torch.zeros(z.shape[0], dtype=z.dtype)
        for t in reversed(_transform_list(model)):
            x, ld = t.inverse(x, context=None)
            total = total + ld
    return x, total


def base_log_prob(model, z, dist, dist_kwargs=None):
    """Closed-form log-density of the base distribution named by the configuration (float64 numpy in, numpy out)."""
    import torch

    z = np.asarray(z, dtype=np.float64)
    d = z.shape[1]
    if dist in (None, "normal_default"):
        return -0.5 * np.sum(z * z, axis=1) - 0.5 * d * math.log(2 * math.pi)
    if dist in ("mvn", "normal"):
        var = float((dist_kwargs or {}).get("var", 1.0))
        return -0.5 * np.sum(z * z, axis=1) / var - 0.5 * d * math.log(2 * math.pi * var)
    if dist == "uniform":
        inside = np.all((z >= 0.0) & (z < 1.0), axis=1)
        return np.where(inside, 0.0, -np.inf)
    if dist in ("lars", "resampled"):
        with torch.no_grad():
            return model._distribution.log_prob(torch.from_numpy(z).type(torch.get_default_dtype())).numpy().astype(np.float64)
    raise KeyError(dist)


def to_tensor(a):
    import torch

    return torch.from_numpy(np.ascontiguousarray(a)).type(torch.get_default_dtype())


def reference_log_prob_forward(model, x, dist, dist_kwargs=None):
    """log p(x) = base(z(x)) + log|det dz/dx| with z computed by the direct composition. Returns z, log p (numpy float64)."""
    z, ld = direct_forward(model, to_tensor(x))
    z = z.numpy().astype(np.float64)
    return z, base_log_prob(model, z, dist, dist_kwargs) + ld.numpy().astype(np.float64)


def reference_inverse(model, z):
    """x(z) and log|det dx/dz| by the direct composition (numpy float64)."""
    x, ld = direct_inverse(model, to_tensor(z))
    return x.numpy().astype(np.float64), ld.numpy().astype(np.float64)


def quantile_edges(samples, lo_q=0.05, hi_q=0.95, k=60, m=10):
    """Cell edges per axis: k intervals between equally spaced sample quantiles, each split into m equal parts.  The cells follow the marginal
    density, so a heavy-tailed or sharply peaked flow is resolved where its mass is."""
    out = []
    for j in range(samples.shape[1]):
        q = np.quantile(samples[:, j], np.linspace(lo_q, hi_q, k + 1))
        e = np.concatenate([q[i] + (q[i + 1] - q[i]) * np.arange(m) / m for i in range(k)] + [q[-1:]])
        out.append(e)
    return out


def grid_integral_edges(log_prob_fn, edges, chunk=120000):
    """Midpoint rule for exp(log_prob) on the tensor grid given by the cell edges of the two axes."""
    ex, ey = (np.asarray(e, dtype=np.float64) for e in edges)
    cx, cy = 0.5 * (ex[1:] + ex[:-1]), 0.5 * (ey[1:] + ey[:-1])
    wx, wy = np.diff(ex), np.diff(ey)
    X, Y = np.meshgrid(cx, cy, indexing="ij")
    W = np.outer(wx, wy).ravel()
    pts = np.column_stack([X.ravel(), Y.ravel()])
    total = 0.0
    nonfinite = 0
    for i in range(0, len(pts), chunk):
        lp = np.asarray(log_prob_fn(pts[i:i + chunk]), dtype=np.float64)
        bad = np.isnan(lp) | (lp == np.inf)
        nonfinite += int(bad.sum())
        lp = np.where(bad, -np.inf, lp)
        total += float(np.sum(np.exp(lp) * W[i:i + chunk]))
    return total, nonfinite
