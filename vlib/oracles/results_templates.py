"""C19 generator discipline: value SHAPES are harvested from real result dictionaries, values are varied inside them.

harvest(d)  -> template tree of one dictionary (JSON-able)
merge(a, b) -> union of two trees
generate(tree, rng) -> a dictionary whose every value has a (path, type, dtype, dimensionality, None-ness) that a real
                       result dictionary had at that path, with adversarial VALUES: NaN, +-inf, +-0.0, subnormals, 1e308,
                       empty and length-1 arrays/lists, extra-precision longdoubles, int64 extremes, and dictionaries that
                       already nest nested one or more levels deeper.

A template node is {"alts": [alt, ...]}; an alt is one of
  {"t": "dict", "keys": {name: node}}
  {"t": "none"} | {"t": "str"} | {"t": "bool", "np": 0|1} | {"t": "int", "np": ""|dtype name} | {"t": "float", "np": ""|dtype name}
  {"t": "array", "dtype": str, "tail": [..]}          plain ndarray; shape = (n, *tail) or () when "tail" is None
  {"t": "struct", "descr": [[name, dtype str], ...]}  1-d structured array
  {"t": "list", "tuple": 0|1, "combos": [[alt, ...], ...], "ragged": 0|1}   element types that occurred TOGETHER in one list
  {"t": "object", "cls": name}                        anything else (reported, never generated)
"""
import datetime
import json

import numpy as np

FLOAT_SPECIALS = [np.nan, np.inf, -np.inf, 0.0, -0.0, 5e-324, -5e-324, 2.2250738585072014e-308, 1e308, -1e308,
                  1.7976931348623157e308, 1.0, -1.5, 0.1, 1e-300, 123456789.12345679, 1.0 / 3.0, 2.0 ** 53 + 2.0]
INT_SPECIALS = [0, 1, -1, 2 ** 31 - 1, 2 ** 31, -2 ** 31 - 1, 2 ** 53 + 1, 2 ** 63 - 1, -2 ** 63]


def _aid(alt):
    return json.dumps(alt, sort_keys=True)


# ---------------------------------------------------------------------------------------------------------------
# harvest
# ---------------------------------------------------------------------------------------------------------------
def leaf_alt(v):
    if v is None:
        return {"t": "none"}
    if isinstance(v, str):
        return {"t": "str"}
    if isinstance(v, (bool, np.bool_)):
        return {"t": "bool", "np": int(isinstance(v, np.bool_))}
    if isinstance(v, (int, np.integer)):
        return {"t": "int", "np": v.dtype.name if isinstance(v, np.integer) else ""}
    if isinstance(v, (float, np.floating)):
        return {"t": "float", "np": v.dtype.name if isinstance(v, np.floating) else ""}
    if isinstance(v, np.ndarray):
        if v.dtype.names:
            if v.ndim != 1:
                return {"t": "object", "cls": f"struct-array-{v.ndim}d"}
            return {"t": "struct", "descr": [[n, v.dtype[n].str] for n in v.dtype.names]}
        if v.dtype.kind not in "fiub":
            return {"t": "object", "cls": f"ndarray-{v.dtype.kind}"}
        return {"t": "array", "dtype": v.dtype.str, "tail": None if v.ndim == 0 else [int(s) for s in v.shape[1:]]}
    return None


def harvest(v):
    alt = leaf_alt(v)
    if alt is not None:
        return {"alts": [alt]}
    if isinstance(v, dict):
        return {"alts": [{"t": "dict", "keys": {str(k): harvest(x) for k, x in v.items()}}]}
    if isinstance(v, (list, tuple)):
        elems = []
        for x in v:
            sub = harvest(x)["alts"][0]
            if _aid(sub) not in [_aid(e) for e in elems]:
                elems.append(sub)
        shapes = {np.shape(x) for x in v if isinstance(x, (np.ndarray, list, tuple))}
        return {"alts": [{"t": "list", "tuple": int(isinstance(v, tuple)), "combos": [sorted(elems, key=_aid)], "ragged": int(len(shapes) > 1)}]}
    return {"alts": [{"t": "object", "cls": type(v).__name__}]}


def merge(a, b):
    """Union of two template nodes (b into a copy of a)."""
    if a is None:
        return json.loads(json.dumps(b))
    out = json.loads(json.dumps(a))
    for alt in b["alts"]:
        if alt["t"] == "dict":
            mine = [x for x in out["alts"] if x["t"] == "dict"]
            if not mine:
                out["alts"].append(json.loads(json.dumps(alt)))
            else:
                for k, node in alt["keys"].items():
                    mine[0]["keys"][k] = merge(mine[0]["keys"].get(k), node)
        elif alt["t"] == "list":
            mine = [x for x in out["alts"] if x["t"] == "list" and x["tuple"] == alt["tuple"]]
            if not mine:
                out["alts"].append(json.loads(json.dumps(alt)))
            else:
                have = [_aid(c) for c in mine[0]["combos"]]
                for c in alt["combos"]:
                    if _aid(c) not in have:
                        mine[0]["combos"].append(c)
                mine[0]["ragged"] = int(mine[0]["ragged"] or alt["ragged"])
        elif _aid(alt) not in [_aid(x) for x in out["alts"]]:
            out["alts"].append(alt)
    return out


def describe(node, path=""):
    """Flat list of 'path: type' strings (one per distinct leaf template)."""
    out = []
    for alt in node["alts"]:
        if alt["t"] == "dict":
            for k, sub in alt["keys"].items():
                out += describe(sub, f"{path}/{k}" if path else k)
        elif alt["t"] == "list":
            for c in alt["combos"]:
                inner = "+".join(sorted(_short(e) for e in c)) if c else "empty"
                out.append(f"{path}: {'tuple' if alt['tuple'] else 'list'}[{inner}]" + (" ragged" if alt["ragged"] else ""))
        else:
            out.append(f"{path}: {_short(alt)}")
    return out


def _short(alt):
    t = alt["t"]
    if t in ("int", "float"):
        return alt["np"] or t
    if t == "bool":
        return "np.bool" if alt["np"] else "bool"
    if t == "array":
        return f"array{alt['dtype']}" + ("[0d]" if alt["tail"] is None else f"[{1 + len(alt['tail'])}d]")
    if t == "struct":
        return "struct(" + ",".join(f"{n}{d}" for n, d in alt["descr"]) + ")"
    if t == "list":
        return "list[" + "|".join("+".join(sorted(_short(e) for e in c)) or "empty" for c in alt["combos"]) + "]"
    if t == "object":
        return "object:" + alt["cls"]
    if t == "dict":
        return "dict"
    return t


def objects_in(node, path=""):
    out = []
    for alt in node["alts"]:
        if alt["t"] == "dict":
            for k, sub in alt["keys"].items():
                out += objects_in(sub, f"{path}/{k}" if path else k)
        elif alt["t"] == "object":
            out.append(f"{path}: {alt['cls']}")
        elif alt["t"] == "list":
            for c in alt["combos"]:
                out += [f"{path}[]: {e['cls']}" for e in c if e["t"] == "object"]
    return out


# ---------------------------------------------------------------------------------------------------------------
# generation
# ---------------------------------------------------------------------------------------------------------------
def gen_float(rng):
    if rng.random() < 0.4:
        return float(FLOAT_SPECIALS[int(rng.integers(len(FLOAT_SPECIALS)))])
    if rng.random() < 0.15:  # timedelta-derived, as every *_time entry of the results
        return datetime.timedelta(seconds=int(rng.integers(0, 10 ** 6)), microseconds=int(rng.integers(0, 10 ** 6))).total_seconds()
    return float(rng.normal() * 10.0 ** rng.uniform(-8, 8))


def gen_np_float(rng, name):
    x = gen_float(rng)
    with np.errstate(all="ignore"):
        if name in ("longdouble", "float128"):
            v = np.longdouble(x)
            if np.isfinite(v) and rng.random() < 0.6:  # a value that no float64 represents (as u / Z computed in longdouble)
                v = v * (np.longdouble(1) + np.longdouble(int(rng.integers(1, 1024))) * np.longdouble(2) ** -63)
            return v
        return np.dtype(name).type(x)


def gen_int(rng, name=""):
    if not name:
        if rng.random() < 0.4:
            return int(INT_SPECIALS[int(rng.integers(len(INT_SPECIALS)))])
        return int(rng.integers(-10 ** int(rng.integers(1, 18)), 10 ** int(rng.integers(1, 18))))
    info = np.iinfo(name)
    r = rng.random()
    if r < 0.15:
        v = info.max
    elif r < 0.3:
        v = info.min
    elif r < 0.4:
        v = 0
    else:
        v = int(rng.integers(max(info.min, -10 ** 9), min(info.max, 10 ** 9)))
    return np.dtype(name).type(v)


def gen_len(rng, big=30):
    r = rng.random()
    if r < 0.15:
        return 0
    if r < 0.3:
        return 1
    return int(rng.integers(2, big))


def fill(rng, shape, dtype):
    dtype = np.dtype(dtype)
    n = int(np.prod(shape))
    with np.errstate(all="ignore"):
        if dtype.kind == "f":
            a = (rng.normal(size=n) * 10.0 ** rng.uniform(-8, 8)).astype(np.float64)
            if n and rng.random() < 0.7:
                k = int(rng.integers(1, max(2, n // 2 + 1)))
                a[rng.integers(0, n, k)] = rng.choice(FLOAT_SPECIALS, k)
            a = a.astype(dtype)
            if dtype.itemsize > 8 and n and rng.random() < 0.5:
                a = a * (np.longdouble(1) + np.longdouble(3) * np.longdouble(2) ** -63)
        elif dtype.kind in "iu":
            info = np.iinfo(dtype)
            a = rng.integers(max(info.min, -10 ** 9), min(info.max, 10 ** 9), n).astype(dtype)
            if n and rng.random() < 0.5:
                a[int(rng.integers(n))] = info.max if rng.random() < 0.5 else info.min
        else:
            a = rng.random(n) < 0.5
    return a.reshape(shape)


def gen_str(rng):
    alphabet = "abcdefghijklmnopqrstuvwxyzABCXYZ0123456789.+-_ "
    return "".join(alphabet[int(i)] for i in rng.integers(0, len(alphabet), int(rng.integers(1, 24))))


def gen_leaf(alt, rng, shape0=None):
    t = alt["t"]
    if t == "none":
        return None
    if t == "str":
        return gen_str(rng)
    if t == "bool":
        v = bool(rng.random() < 0.5)
        return np.bool_(v) if alt["np"] else v
    if t == "int":
        return gen_int(rng, alt["np"])
    if t == "float":
        return gen_np_float(rng, alt["np"]) if alt["np"] else gen_float(rng)
    if t == "array":
        if alt["tail"] is None:
            return fill(rng, (), alt["dtype"])
        n = gen_len(rng) if shape0 is None else shape0
        return fill(rng, (n, *alt["tail"]), alt["dtype"])
    if t == "struct":
        n = gen_len(rng, 60) if shape0 is None else shape0
        a = np.zeros(n, dtype=[(nm, d) for nm, d in alt["descr"]])
        for nm, d in alt["descr"]:
            a[nm] = fill(rng, (n,), d)
        return a
    raise ValueError(t)


def generate(node, rng, depth=0, stats=None):
    """One value for a template node."""
    alts = [a for a in node["alts"] if a["t"] != "object"]
    alt = alts[int(rng.integers(len(alts)))]
    if stats is not None:
        stats[alt["t"]] = stats.get(alt["t"], 0) + 1
    if alt["t"] == "dict":
        return gen_dict(alt, rng, depth, stats)
    if alt["t"] == "list":
        combos = alt["combos"]
        combo = [e for e in combos[int(rng.integers(len(combos)))] if e["t"] != "object"]
        if not combo:
            out = []
        else:
            n = gen_len(rng, 14)
            common = None if alt["ragged"] else gen_len(rng, 10)
            out = []
            for _ in range(n):
                e = combo[int(rng.integers(len(combo)))]
                if e["t"] in ("dict", "list"):
                    out.append(generate({"alts": [e]}, rng, depth + 1, stats))
                else:
                    out.append(gen_leaf(e, rng, shape0=common))
        return tuple(out) if alt["tuple"] else out
    return gen_leaf(alt, rng)


def gen_dict(alt, rng, depth=0, stats=None, keep=0.85):
    keys = [k for k, n in alt["keys"].items() if any(a["t"] != "object" for a in n["alts"])]
    chosen = [k for k in keys if rng.random() < keep]
    if not chosen:  # an empty dictionary leaves no HDF5 group and no real result has one
        chosen = [keys[int(rng.integers(len(keys)))]]
    out = {}
    for k in chosen:
        out[k] = generate(alt["keys"][k], rng, depth + 1, stats)
        # deeper nesting of dictionaries that already nest
        sub = [a for a in alt["keys"][k]["alts"] if a["t"] == "dict"]
        if sub and isinstance(out[k], dict) and depth < 4 and rng.random() < 0.3:
            out[k]["deeper"] = gen_dict(sub[0], rng, depth + 1, stats, keep=0.5)
            if stats is not None:
                stats["deeper"] = stats.get("deeper", 0) + 1
    return out


def root_dict(tree):
    return [a for a in tree["alts"] if a["t"] == "dict"][0]
