"""One option case in its own bounded process (C20).  argv[1] = JSON {sampler, name(s), kwargs, run_kwargs, outdir, dims, seed}.
Prints 'RES <json>'.  Logical budgets are enforced by counters inside the process; the parent holds the wall-clock watchdog."""
import json
import os
import shutil
import sys
import threading
import time
import traceback


class Budget(Exception):
    pass


BUDGETS = dict(latent_batches_per_population=1500, ins_draw_batches_per_draw=500, std_iterations_per_nlive=80, ins_iterations=60, likelihood_points=400000)


CUR = {}
_PATCHED = [False]


def run_option(cfg, in_farm=True):
    from vlib.common import assert_repo, jdump

    assert_repo()
    from vlib.runs import quiet_logging, reset_globals, TINY_FLOW
    from vlib import zoo
    from vlib.monitors.standard import StandardMonitors
    from vlib.monitors.ins import INSMonitors
    from vlib.monitors.results import check_standard_result, check_ins_result

    quiet_logging()
    reset_globals()
    from nessai.flowsampler import FlowSampler
    from nessai.proposal.flowproposal import FlowProposal
    from nessai.flowmodel.importance import ImportanceFlowModel
    from nessai.proposal.importance import ImportanceFlowProposal
    from nessai.samplers.nestedsampler import NestedSampler
    from nessai.samplers.importancesampler import ImportanceNestedSampler

    ins = cfg["sampler"] == "ins"
    out = cfg["outdir"]
    shutil.rmtree(out, ignore_errors=True)
    if ins:
        base = dict(nlive=200, min_samples=50, plot=False, seed=cfg["seed"], flow_config=dict(TINY_FLOW), training_config=dict(max_epochs=20, patience=5), checkpointing=False,
                    max_iteration=40, signal_handling=False)
    else:
        base = dict(nlive=100, plot=False, seed=cfg["seed"], flow_config=dict(TINY_FLOW), training_config=dict(max_epochs=10, patience=5), checkpointing=False,
                    max_iteration=1500, signal_handling=False)
    for k, v in cfg["kwargs"].items():
        if isinstance(v, dict) and isinstance(base.get(k), dict):
            base[k] = {**base[k], **v}
        else:
            base[k] = v
    base.pop("_dims", None)
    model_name = base.pop("_model", None)
    # runs without an iteration cap are given adequate flows below and then stop within 3-4 iterations: their iteration budget is 30 so that a loop that cannot
    # terminate is decided by the logical budget well inside the wall-clock watchdog
    CUR["ins_iteration_budget"] = 30 if (ins and base.get("max_iteration", 0) is None) else BUDGETS["ins_iterations"]
    if ins and base.get("max_iteration", 0) is None:
        # an uncapped importance-sampler run terminates only through its stopping criteria, i.e. only if the flows are good enough to converge: with the tiny flows
        # of the other cases (2 blocks x 4 neurons) a MAF run oscillates for hundreds of iterations, which says nothing about the option under test.  Uncapped runs
        # therefore get a small but adequate network, and the 60-iteration budget then is a statement about bounded progress.
        base["flow_config"] = {**base["flow_config"], "n_blocks": 4, "n_neurons": 16, "n_layers": 2}
        base["training_config"] = {**base["training_config"], "max_epochs": 100, "patience": 10}
    model = zoo.make(model_name or {2: "G2u", 3: "G3u"}[cfg.get("dims", 2)])
    counters = dict(latent_batches=0, ins_draw_batches=0, iterations=0, populations=0, overrun=None)
    res = dict(name=cfg["name"], sampler=cfg["sampler"])
    CUR["counters"], CUR["model"] = counters, model

    def over(which, value):
        CUR["counters"]["overrun"] = which
        raise Budget(f"{which}={value}")

    # ---- logical budgets
    if not _PATCHED[0]:
        _PATCHED[0] = True
        o_pop, o_lat = FlowProposal.populate, FlowProposal.draw_latent_prior

        def populate(self, *a, **k):
            CUR["counters"]["latent_batches"] = 0
            CUR["counters"]["latent_points"] = 0
            CUR["counters"]["populations"] += 1
            return o_pop(self, *a, **k)

        def draw_latent_prior(self, n):
            c = CUR["counters"]
            c["latent_batches"] += 1
            c["latent_points"] = c.get("latent_points", 0) + int(n)
            if getattr(self, "accumulate_weights", False):
                # nessai bounds this mode itself: populate() stops after max_samples (1e6) proposed points with a warning and a short pool -- slow, but bounded
                if c["latent_points"] > 1_000_000 + 2 * int(n):
                    over("latent_points_per_population_accumulate_mode", c["latent_points"])
            elif c["latent_batches"] > BUDGETS["latent_batches_per_population"]:
                over("latent_batches_per_population", c["latent_batches"])
            return o_lat(self, n)

        FlowProposal.populate, FlowProposal.draw_latent_prior = populate, draw_latent_prior
        o_draw, o_sith = ImportanceFlowProposal.draw, ImportanceFlowModel.sample_ith

        def idraw(self, *a, **k):
            CUR["counters"]["ins_draw_batches"] = 0
            return o_draw(self, *a, **k)

        def sample_ith(self, *a, **k):
            c = CUR["counters"]
            c["ins_draw_batches"] += 1
            if c["ins_draw_batches"] > BUDGETS["ins_draw_batches_per_draw"]:
                over("ins_draw_batches_per_draw", c["ins_draw_batches"])
            return o_sith(self, *a, **k)

        ImportanceFlowProposal.draw, ImportanceFlowModel.sample_ith = idraw, sample_ith
        o_cs, o_uh = NestedSampler.consume_sample, ImportanceNestedSampler.update_history

        def consume_sample(self):
            c = CUR["counters"]
            c["iterations"] += 1
            if c["iterations"] > BUDGETS["std_iterations_per_nlive"] * self.nlive:
                over("std_iterations", c["iterations"])
            if CUR["model"].b_points > BUDGETS["likelihood_points"]:
                over("likelihood_points", CUR["model"].b_points)
            return o_cs(self)

        def update_history(self):
            c = CUR["counters"]
            c["iterations"] += 1
            if c["iterations"] > CUR.get("ins_iteration_budget", BUDGETS["ins_iterations"]):
                over("ins_iterations", c["iterations"])
            return o_uh(self)

        NestedSampler.consume_sample, ImportanceNestedSampler.update_history = consume_sample, update_history

    # ---- result monitors (C05 oracle on a clean finish)
    mon = (INSMonitors if ins else StandardMonitors)(model)
    holder = {}
    main_id = threading.get_ident()

    def watchdog():
        fr = sys._current_frames().get(main_id)
        st = traceback.extract_stack(fr)[-8:]
        res.update(status="WATCHDOG", points=model.b_points, counters=counters, where=[f"{os.path.basename(x.filename)}:{x.lineno}:{x.name}" for x in st])
        print("RES " + jdump(res), flush=True)
        os._exit(3)

    t = None
    if not in_farm:
        t = threading.Timer(float(cfg.get("watchdog", 150)), watchdog)
        t.daemon = True
        t.start()
    t0 = time.time()
    try:
        fs = FlowSampler(model, output=out, resume=False, importance_nested_sampler=ins, **base)
        holder["fs"] = fs
        res["points_at_construction"] = model.b_points
        fs.run(plot=bool(base.get("plot", False)), save=True, **cfg.get("run_kwargs", {}))
        ns = fs.ns
        if ins:
            check_ins_result(fs, model, mon)
        else:
            check_standard_result(fs, model, mon)
        files = sorted(os.listdir(out))
        res.update(status="OK", logZ=float(fs.logZ), err=float(fs.logZ_error), it=int(ns.iteration), points=int(model.b_points), n=int(len(fs.nested_samples)),
                   t=round(time.time() - t0, 1), result_problems=[p for p in mon.problems if p[0] == "C05"], result_file=[f for f in files if f.startswith("result")],
                   finite=bool(abs(float(fs.logZ)) < 1e300 and float(fs.logZ_error) == float(fs.logZ_error)))
    except Budget as e:
        res.update(status="BUDGET", which=counters["overrun"], msg=str(e), points=int(model.b_points), it=counters["iterations"])
    except BaseException as e:
        tb = traceback.extract_tb(e.__traceback__)
        own = [x for x in tb if "/nessai/" in x.filename and "/verif/" not in x.filename]
        last = own[-1] if own else tb[-1]
        res.update(status="FAIL", exc=type(e).__name__, msg=str(e)[:160], at=last.name, at_file=os.path.basename(last.filename), points=int(model.b_points),
                   it=counters["iterations"], chain=[x.name for x in own][-6:])
    res["counters"] = counters
    try:
        model.close_pool()
    except Exception:
        pass
    shutil.rmtree(out, ignore_errors=True)
    try:
        import matplotlib.pyplot as plt

        plt.close("all")
    except Exception:
        pass
    if t is not None:
        t.cancel()
    return res


def main():
    from vlib.common import jdump

    res = run_option(json.loads(sys.argv[1]), in_farm=False)
    print("RES " + jdump(res), flush=True)
    os._exit(0)


if __name__ == "__main__":
    main()
