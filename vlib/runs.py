"""Run harness: executes real FlowSampler runs with monitors armed; used as a farm worker by the run-level checks."""
import os
import shutil
import time
import traceback

import numpy as np

TINY_FLOW = dict(n_blocks=2, n_neurons=4, n_layers=1)
TINY_TRAIN = dict(max_epochs=10, patience=5)


def reset_globals():
    """nessai keeps process-global state (extra live-point fields, eps, torch dtype): start every case clean."""
    import torch
    from nessai import config
    from nessai.livepoint import reset_extra_live_points_parameters

    reset_extra_live_points_parameters()
    config.general.eps = 1e-8
    torch.set_default_dtype(torch.float32)


def std_kwargs(cfg):
    kw = dict(nlive=100, plot=False, seed=1, checkpointing=False, log_on_iteration=True, logging_interval=10**9,
              flow_config=dict(TINY_FLOW), training_config=dict(TINY_TRAIN))
    for k, v in cfg.items():
        if k == "flow_config":
            kw["flow_config"] = {**TINY_FLOW, **v}
        elif k == "training_config":
            if v is None:
                kw.pop("training_config", None)   # older layout: training options are given inside flow_config
            else:
                kw["training_config"] = {**TINY_TRAIN, **v}
        else:
            kw[k] = v
    return kw


def quiet_logging():
    import logging

    logging.getLogger("nessai").setLevel(logging.ERROR)
    logging.getLogger("glasflow").setLevel(logging.ERROR)


def result_digest(fs, ins=False):
    """Byte digest of the result-bearing outputs (posterior samples are re-drawn at random by design and excluded)."""
    import hashlib

    ns = fs.ns
    h = hashlib.sha256()
    if ins:
        parts = [ns.samples_unit.tobytes(), np.asarray(ns.log_posterior_weights).tobytes(), repr(float(ns.log_evidence)).encode(),
                 repr(float(ns.log_evidence_error)).encode()]
    else:
        parts = [np.array(ns.nested_samples).tobytes(), np.asarray(ns.state.log_posterior_weights).tobytes(), repr(float(ns.state.logZ)).encode(),
                 repr(list(ns.insertion_indices)).encode()]
    for p_ in parts:
        h.update(p_)
    return h.hexdigest(), int(ns.total_likelihood_evaluations)


def idempotence(fs, model, case, kw, mon, ins=False):
    """C15: run() again and resume-after-finish must return the same results without evaluating the likelihood."""
    from nessai.flowsampler import FlowSampler
    from vlib import zoo

    def where(tb):
        fn = [l.split(", in ")[-1].strip() for l in tb.splitlines() if l.strip().startswith("File ") and "/nessai/" in l][-1:]
        return fn[0] if fn else "?"

    d1, e1 = result_digest(fs, ins)
    pts1 = model.b_points
    mon.bump("C15.second_run_checked")
    try:
        fs.run(plot=False, save=False, **case.get("run_kwargs", {}))
    except Exception as e:
        mon.problem("C15", f"second-run-raises:{type(e).__name__}@{where(traceback.format_exc())}", str(e)[:200])
        return
    d2, e2 = result_digest(fs, ins)
    if d2 != d1:
        mon.problem("C15", "second-run-changes-results", (d1[:12], d2[:12]))
    if model.b_points != pts1 or e2 != e1:
        mon.problem("C15", "second-run-evaluates-likelihood", dict(calls=model.b_points - pts1, counter=e2 - e1))
    rf = os.path.join(case["outdir"], "nested_sampler_resume.pkl")
    if not (os.path.exists(rf) or os.path.exists(rf + ".old")):
        # e.g. prior_sampling=True returns before the final checkpoint is written: nothing to resume from, the clause is vacuous
        mon.bump("C15.no_final_checkpoint_written")
        return
    model3 = zoo.make(case["model"], **case.get("model_kwargs", {}))
    mon.model = model3
    mon.bump("C15.resume_after_finish_checked")
    try:
        fs3 = FlowSampler(model3, output=case["outdir"], resume=True, importance_nested_sampler=ins, signal_handling=False, **kw)
        fs3.run(plot=False, save=False, **case.get("run_kwargs", {}))
    except Exception as e:
        mon.problem("C15", f"resume-after-finish-raises:{type(e).__name__}@{where(traceback.format_exc())}", str(e)[:200])
        return
    if not ins:
        mon.end_of_run(fs3.ns)   # the C01 trace clauses on what the resumed sampler holds
    d3, e3 = result_digest(fs3, ins)
    if d3 != d1:
        mon.problem("C15", "resume-after-finish-changes-results", (d1[:12], d3[:12]))
    if model3.b_points != 0:
        mon.problem("C15", "resume-after-finish-evaluates-likelihood", model3.b_points)
    if e3 != e1:
        mon.problem("C15", "resume-after-finish-changes-evaluation-count", (e1, e3))
    try:
        model3.close_pool()
    except Exception:
        pass


def run_standard(case):
    """case: model, model_kwargs, kwargs (FlowSampler), run_kwargs, resume_at (iteration or None), outdir, props (tags to report)."""
    from vlib.common import assert_repo

    assert_repo()
    quiet_logging()
    reset_globals()
    from nessai.flowsampler import FlowSampler
    from vlib import zoo
    from vlib.monitors.standard import StandardMonitors, StopRun, AbortRun, BudgetExceeded
    from vlib.monitors.results import check_standard_result

    out = case["outdir"]
    shutil.rmtree(out, ignore_errors=True)
    t0 = time.time()
    kw = std_kwargs(case.get("kwargs", {}))
    if kw.get("uninformed_proposal") == "leaky":
        from vlib.userproposals import LeakyAnalyticProposal

        kw["uninformed_proposal"] = LeakyAnalyticProposal
    resume_at = case.get("resume_at")
    if resume_at:
        kw.update(checkpointing=True, checkpoint_on_iteration=True, checkpoint_interval=case.get("checkpoint_interval", 40))
    model = zoo.make(case["model"], **case.get("model_kwargs", {}))
    mon = StandardMonitors(model, stop_at_iteration=resume_at)
    if case.get("stop_after_mid_iteration_training"):
        kw.update(checkpointing=True)
        mon.stop_after_mid_iteration_training = int(case["stop_after_mid_iteration_training"])
    mon.abort_props = case.get("props")
    mon.continuous = case["model"] != "Tie2" or True
    res = dict(name=case.get("name"), segments=0, error=None)
    boundary = []
    try:
        mon.arm()
        fs = FlowSampler(model, output=out, resume=False, signal_handling=False, **kw)
        try:
            fs.run(plot=False, save=case.get("save", False), **case.get("run_kwargs", {}))
            res["segments"] = 1
        except StopRun as s:
            # abrupt stop at an iteration boundary, then a fresh FlowSampler resumes from the last checkpoint on disk
            res["stopped_at"] = int(str(s))
            boundary.append(model.boundary_summary())
            first_evals = model.likelihood_evaluations
            model2 = zoo.make(case["model"], **case.get("model_kwargs", {}))
            mon.model = model2
            mon.trace = []
            mon.finalise_calls = 0
            fs = FlowSampler(model2, output=out, resume=True, signal_handling=False, **kw)
            res["resumed_from_iteration"] = int(fs.ns.iteration)
            fs.run(plot=False, save=case.get("save", False), **case.get("run_kwargs", {}))
            res["segments"] = 2
            model = model2
        ns = fs.ns
        mon.end_of_run(ns)
        if res["segments"] == 1:
            mon.check_stopping(ns)
        rp = check_standard_result(fs, model, mon)
        boundary.append(model.boundary_summary())
        if case.get("idempotence") and ns.finalised:
            idempotence(fs, model, case, kw, mon, ins=False)
        if case.get("cap_at_convergence") and ns.finalised and res["segments"] == 1 and not kw.get("prior_sampling"):
            # boundary value of the iteration cap: the same seeded run with max_iteration equal to the iteration at which the tolerance was first met must
            # stop at the same iteration, consume its live points and return the same result
            d1, e1 = result_digest(fs, False)
            model_c = zoo.make(case["model"], **case.get("model_kwargs", {}))
            mon.model = model_c
            mon.trace, mon.finalise_calls = [], 0
            fs_c = FlowSampler(model_c, output=out + "-cap", resume=False, signal_handling=False, **dict(kw, max_iteration=int(ns.iteration)))
            fs_c.run(plot=False, save=False)
            mon.bump("C15.cap_at_convergence_checked")
            d2, e2 = result_digest(fs_c, False)
            if not fs_c.ns.finalised:
                mon.problem("C15", "cap-equal-to-convergence-iteration:live-points-not-consumed", dict(iteration=int(fs_c.ns.iteration), condition=float(fs_c.ns.condition), tolerance=float(fs_c.ns.tolerance), n=len(fs_c.ns.nested_samples)))
            elif d2 != d1:
                mon.problem("C15", "cap-equal-to-convergence-iteration:result-differs-from-uncapped-run", dict(n_capped=len(fs_c.ns.nested_samples), n_uncapped=len(ns.nested_samples)))
            shutil.rmtree(out + "-cap", ignore_errors=True)
            mon.model = model
        res.update(iterations=int(ns.iteration), nlive=int(ns.nlive), n_nested=len(ns.nested_samples), finalised=bool(ns.finalised),
                   logZ=float(fs.logZ), logZ_error=float(fs.logZ_error), populations=int(getattr(ns._flow_proposal, "populated_count", 0)),
                   trainings=int(ns._flow_proposal.training_count), evals=int(ns.total_likelihood_evaluations),
                   final_p=None if ns.final_p_value is None else float(ns.final_p_value), result_checks=rp,
                   proposal=type(ns._flow_proposal).__name__, uninformed=type(ns._uninformed_proposal).__name__)
    except StopRun:
        res["error"] = "StopRun escaped"
    except AbortRun as e:
        res["aborted"] = str(e)
    except BudgetExceeded as e:
        res["budget_exceeded"] = str(e)
    except BaseException as e:
        res["error"] = f"{type(e).__name__}: {e}"
        res["traceback"] = traceback.format_exc()[-4000:]
        res["points_at_error"] = int(model.b_points)
    finally:
        mon.disarm()
        try:
            model.close_pool()
        except Exception:
            pass
    oob = sum(b["oob"] for b in boundary)
    if oob:
        mon.problem("C09", "likelihood-called-outside-prior-support", boundary)
    res.update(problems=mon.problems, counts=mon.counts, wall=round(time.time() - t0, 2), boundary=boundary,
               max_contour_excess=mon.max_contour_excess)
    if not case.get("keep_output"):
        shutil.rmtree(out, ignore_errors=True)
    return res


def ins_kwargs(cfg):
    kw = dict(nlive=200, min_samples=50, plot=False, seed=1, checkpointing=False, max_iteration=12,
              flow_config=dict(TINY_FLOW), training_config=dict(max_epochs=20, patience=5))
    for k, v in cfg.items():
        if k == "flow_config":
            kw["flow_config"] = {**TINY_FLOW, **v}
        elif k == "training_config":
            kw["training_config"] = {**kw["training_config"], **v}
        else:
            kw[k] = v
    return kw


def run_ins(case):
    """Importance nested sampler run with the INS monitors armed. case: model, kwargs, run_kwargs, resume_at, resume_cycles, outdir."""
    from vlib.common import assert_repo

    assert_repo()
    quiet_logging()
    reset_globals()
    from nessai.flowsampler import FlowSampler
    from vlib import zoo
    from vlib.monitors.ins import INSMonitors
    from vlib.monitors.standard import StopRun, AbortRun, BudgetExceeded
    from vlib.monitors.results import check_ins_result

    out = case["outdir"]
    shutil.rmtree(out, ignore_errors=True)
    t0 = time.time()
    kw = ins_kwargs(case.get("kwargs", {}))
    resume_points = list(case.get("resume_at") or [])
    if resume_points:
        kw.update(checkpointing=True, checkpoint_on_iteration=True, checkpoint_interval=1)
    model = zoo.make(case["model"], **case.get("model_kwargs", {}))
    mon = INSMonitors(model, iteration_budget=case.get("iteration_budget", 200))
    mon.abort_props = case.get("props")
    res = dict(name=case.get("name"), segments=0, error=None)
    boundary = []
    fs = None
    try:
        mon.arm()
        resume = False
        while True:
            mon.stop_at_iteration = resume_points.pop(0) if resume_points else None
            fs = FlowSampler(model, output=out, resume=resume, importance_nested_sampler=True, signal_handling=False, **kw)
            mon.min_samples = fs.ns.min_samples
            sc, tl = kw.get("stopping_criterion", "ratio"), kw.get("tolerance", 0.0)
            sc = [sc] if isinstance(sc, str) else list(sc)
            tl = list(tl) if isinstance(tl, (list, tuple)) else [tl]
            if len(sc) == len(tl):
                mon.user_criteria = dict(pairs=[(str(a), float(b)) for a, b in zip(sc, tl)], any=kw.get("check_criteria", "any") == "any")
            try:
                fs.run(plot=False, save=case.get("save", False), **case.get("run_kwargs", {}))
                res["segments"] += 1
                break
            except StopRun:
                res["segments"] += 1
                boundary.append(model.boundary_summary())
                model = zoo.make(case["model"], **case.get("model_kwargs", {}))
                mon.model = model
                mon.finalise_calls = 0
                resume = True
        ns = fs.ns
        rp = check_ins_result(fs, model, mon)
        boundary.append(model.boundary_summary())
        if case.get("idempotence") and ns.finalised:
            idempotence(fs, model, case, kw, mon, ins=True)
        res.update(iterations=int(ns.iteration), nlive=int(ns.nlive), n_samples=len(ns.samples_unit), finalised=bool(ns.finalised),
                   logZ=float(fs.logZ), logZ_error=float(fs.logZ_error), evals=int(ns.total_likelihood_evaluations), result_checks=rp,
                   n_proposals=int(ns.proposal.n_proposals), criterion=[float(c) for c in ns.criterion])
    except AbortRun as e:
        res["aborted"] = str(e)
    except BudgetExceeded as e:
        res["budget_exceeded"] = str(e)
    except BaseException as e:
        res["error"] = f"{type(e).__name__}: {e}"
        res["traceback"] = traceback.format_exc()[-4000:]
    finally:
        mon.disarm()
        try:
            model.close_pool()
        except Exception:
            pass
    if sum(b["oob"] for b in boundary):
        mon.problem("C09", "ins:likelihood-called-outside-prior-support", boundary)
    res.update(problems=mon.problems, counts=mon.counts, wall=round(time.time() - t0, 2), boundary=boundary, max_rel_density_diff=mon.max_rel,
               eps_band_samples=mon.eps_band_samples, loop_entries=mon.loop_entries)
    if not case.get("keep_output"):
        shutil.rmtree(out, ignore_errors=True)
    return res
