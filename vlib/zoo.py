"""Analytic model zoo with an instrumented user boundary (DESIGN 2.1).

Every model subclasses nessai.model.Model, implements to/from_unit_hypercube, and routes each user-level
log_likelihood / log_prior call through `_boundary`, which (a) counts calls/points, (b) flags points outside the
prior box, (c) optionally appends a record to an O_APPEND log file (works from fork-started pool workers),
(d) optionally sleeps a pseudo-random few microseconds (scheduling stress) and (e) optionally kills the process
with os._exit(9) once K sampler-attributed points have been evaluated.
"""
import math
import os
import sys
import time

import numpy as np
from scipy.special import ndtr, ndtri, log_ndtr

from nessai.model import Model

_PROBE_FUNCS = ("verify_model", "check_vectorised_function")
LOG2PI = math.log(2 * math.pi)


def _is_probe():
    """True when the call comes from verify_model / the vectorisation probe (not counted by nessai)."""
    f = sys._getframe(3)
    for _ in range(6):
        if f is None:
            return False
        if f.f_code.co_name in _PROBE_FUNCS:
            return True
        f = f.f_back
    return False


class ZooModel(Model):
    log_path = None          # user-boundary log (append-only)
    delay_us = 0             # max random delay per likelihood call
    kill_at = None           # os._exit(9) when this many sampler-attributed points have been evaluated
    record_ids = False       # keep ids (first parameter) per call in memory

    def _init_boundary(self):
        self.b_calls = 0
        self.b_points = 0
        self.b_probe_points = 0
        self.b_oob = 0
        self.b_oob_examples = []
        self.b_prior_calls = 0
        self.b_call_ids = []
        self._log_fd = None

    def _boundary(self, x, kind="L"):
        n = int(np.size(x))
        if kind == "P":
            self.b_prior_calls += 1
            return
        probe = _is_probe()
        if probe:
            self.b_probe_points += n
        else:
            self.b_calls += 1
            self.b_points += n
        inb = self.ref_in_bounds(x)
        if not np.all(inb):
            self.b_oob += int(np.sum(~np.atleast_1d(inb)))
            if len(self.b_oob_examples) < 3:
                xx = np.atleast_1d(x)
                self.b_oob_examples.append([float(xx[nm][~np.atleast_1d(inb)][0]) for nm in self.names])
        if self.record_ids:
            self.b_call_ids.append(np.atleast_1d(x[self.names[0]]).astype(float).tolist())
        if self.log_path is not None:
            if self._log_fd is None or self._log_pid != os.getpid():
                self._log_fd = os.open(self.log_path, os.O_WRONLY | os.O_APPEND | os.O_CREAT, 0o644)
                self._log_pid = os.getpid()
            ids = ""
            if self.record_ids:
                ids = " " + ",".join(repr(float(v)) for v in np.atleast_1d(x[self.names[0]]))
            os.write(self._log_fd, f"{os.getpid()} {'probe' if probe else 'L'} {n} {int(np.all(inb))}{ids}\n".encode())
        if self.delay_us:
            # pseudo-random but reproducible per content; never touches numpy's global RNG
            h = hash(np.atleast_1d(x[self.names[0]]).tobytes()) % (self.delay_us + 1)
            time.sleep(h * 1e-6)
        if self.kill_at is not None and not probe and self.b_points >= self.kill_at:
            os._exit(9)

    def ref_in_bounds(self, x):
        """The monitors' own bounds test, parameter by parameter *by name* (independent of nessai's Model.in_bounds, which the user-side priors call)."""
        ok = True
        for n in self.names:
            lo, hi = self.bounds[n]
            ok = ok & (x[n] >= lo) & (x[n] <= hi)
        return ok

    # ---- hypercube maps for a uniform box --------------------------------------------------------
    def to_unit_hypercube(self, x):
        o = x.copy()
        for n in self.names:
            lo, hi = self.bounds[n]
            o[n] = (x[n] - lo) / (hi - lo)
        return o

    def from_unit_hypercube(self, x):
        o = x.copy()
        for n in self.names:
            lo, hi = self.bounds[n]
            o[n] = (hi - lo) * x[n] + lo
        return o

    def raw_log_likelihood(self, x):
        """Uncounted, unlogged evaluation used by the monitors."""
        return self._ll(x)

    def raw_log_prior(self, x):
        return self._lp(x)

    def log_likelihood(self, x):
        self._boundary(x, "L")
        return self._ll(x)

    def log_prior(self, x):
        self._boundary(x, "P")
        return self._lp(x)

    def boundary_summary(self):
        return dict(calls=self.b_calls, points=self.b_points, probe_points=self.b_probe_points, oob=self.b_oob,
                    oob_examples=self.b_oob_examples)


class GaussU(ZooModel):
    """Uniform box prior, diagonal Gaussian likelihood.  Closed-form evidence and posterior moments."""

    def __init__(self, d=2, mu=None, sigma=None, lo=-5.0, hi=5.0, names=None):
        self.names = names or [f"x{i}" for i in range(d)]
        self.bounds = {n: [lo, hi] for n in self.names}
        self.mu = np.zeros(d) if mu is None else np.asarray(mu, float)
        self.sigma = np.ones(d) if sigma is None else np.asarray(sigma, float)
        self._lognorm = -float(np.sum(np.log(self.sigma))) - 0.5 * d * LOG2PI
        self._logvol = float(np.sum([np.log(hi - lo) for _ in self.names]))
        self._init_boundary()

    def _lp(self, x):
        return np.log(self.in_bounds(x), dtype=float) - self._logvol

    def _ll(self, x):
        s = 0.0
        for i, n in enumerate(self.names):
            z = (x[n] - self.mu[i]) / self.sigma[i]
            s = s + z * z
        return -0.5 * s + self._lognorm

    @property
    def true_log_evidence(self):
        t = 0.0
        for i, n in enumerate(self.names):
            lo, hi = self.bounds[n]
            t += math.log(ndtr((hi - self.mu[i]) / self.sigma[i]) - ndtr((lo - self.mu[i]) / self.sigma[i])) - math.log(hi - lo)
        return t

    def posterior_moments(self):
        """mean and variance per parameter of the (truncated Gaussian) posterior."""
        from scipy.stats import truncnorm

        out = {}
        for i, n in enumerate(self.names):
            lo, hi = self.bounds[n]
            a, b = (lo - self.mu[i]) / self.sigma[i], (hi - self.mu[i]) / self.sigma[i]
            m, v = truncnorm.stats(a, b, loc=self.mu[i], scale=self.sigma[i], moments="mv")
            out[n] = (float(m), float(v))
        return out

    def sample_prior(self, n, rng):
        from nessai.livepoint import numpy_array_to_live_points

        lo = np.array([self.bounds[k][0] for k in self.names])
        hi = np.array([self.bounds[k][1] for k in self.names])
        return numpy_array_to_live_points(rng.uniform(lo, hi, (n, len(self.names))), self.names)

    def prior_cdf(self, name, v):
        lo, hi = self.bounds[name]
        return (v - lo) / (hi - lo)


class GaussAsym(GaussU):
    """Gaussian likelihood under a uniform prior, with nothing symmetric under an exchange of the two parameters: different means, widths and prior ranges
    (a point whose coordinates are swapped has a different likelihood and usually lies outside the prior box)."""

    def __init__(self):
        super().__init__(d=2, mu=[1.2, -0.8], sigma=[0.5, 1.4])
        self.bounds = {"x0": [-4.0, 6.0], "x1": [-9.0, 3.5]}
        self._logvol = float(np.sum([np.log(b[1] - b[0]) for b in self.bounds.values()]))
        self._init_boundary()

    def sample_prior(self, n, rng):
        from nessai.livepoint import numpy_array_to_live_points

        lo = np.array([self.bounds[k][0] for k in self.names])
        hi = np.array([self.bounds[k][1] for k in self.names])
        return numpy_array_to_live_points(rng.uniform(lo, hi, (n, 2)), self.names)


class GaussOffset(GaussU):
    """Gaussian likelihood with a large additive constant in log L (numerically extreme magnitudes: exp(log L) under- or overflows in float64)."""

    def __init__(self, offset=-2000.0, **kw):
        super().__init__(d=2, **kw)
        self.offset = float(offset)

    def _ll(self, x):
        return GaussU._ll(self, x) + self.offset

    @property
    def true_log_evidence(self):
        return GaussU.true_log_evidence.fget(self) + self.offset


class GaussUNoBoundsCheck(GaussU):
    """GaussU whose log_prior is the constant density without a bounds test (a common way to write a uniform prior): staying inside the box is then entirely up to
    the samplers' own bounds / unit-hypercube checks."""

    def _lp(self, x):
        return np.zeros(np.shape(x[self.names[0]]), dtype=float) - self._logvol


class GaussHardCut(GaussU):
    """Gaussian likelihood that is exactly zero (log L = -inf) over about 80 % of the prior volume (x0 < 0.5 or |x1| > 2): a legitimate input, nessai only warns."""

    def _ll(self, x):
        base = GaussU._ll(self, x)
        cut = (x["x0"] < 0.5) | (np.abs(x["x1"]) > 2.0)
        return np.where(cut, -np.inf, base)

    @property
    def true_log_evidence(self):
        lo, hi = self.bounds["x0"]
        return math.log((ndtr(hi) - ndtr(0.5)) * (ndtr(2.0) - ndtr(-2.0))) - self._logvol

    @property
    def zero_likelihood_prior_fraction(self):
        lo, hi = self.bounds["x0"]
        return 1.0 - (hi - 0.5) / (hi - lo) * 4.0 / (self.bounds["x1"][1] - self.bounds["x1"][0])

    def posterior_moments(self):
        from scipy.stats import truncnorm

        lo, hi = self.bounds["x0"]
        m0, v0 = truncnorm.stats(0.5, hi, moments="mv")
        m1, v1 = truncnorm.stats(-2.0, 2.0, moments="mv")
        return {"x0": (float(m0), float(v0)), "x1": (float(m1), float(v1))}


class GaussAsymReordered(GaussAsym):
    """GaussAsym whose bounds dictionary lists the parameters in another order than names (both are keyed by name, so this is legitimate)."""

    def __init__(self):
        super().__init__()
        self.bounds = {k: self.bounds[k] for k in reversed(list(self.bounds))}
        # posterior pressed against the upper bound of x1 (3.5), where the *other* parameter's range (up to 6) would still allow points
        self.mu = np.array([1.2, 3.0])


class GaussTN(ZooModel):
    """Product of truncated-normal priors (non-uniform) x Gaussian likelihood; analytic evidence.

    new_point / new_point_log_prob are overridden so that the analytic-prior path (AnalyticProposal) is valid.
    """

    def __init__(self, d=2, mu=None, sigma=None, m0=None, s0=None, lo=-6.0, hi=6.0):
        self.names = [f"x{i}" for i in range(d)]
        self.bounds = {n: [lo, hi] for n in self.names}
        self.mu = np.full(d, 0.7) if mu is None else np.asarray(mu, float)
        self.sigma = np.full(d, 0.8) if sigma is None else np.asarray(sigma, float)
        self.m0 = np.full(d, -0.5) if m0 is None else np.asarray(m0, float)
        self.s0 = np.full(d, 2.5) if s0 is None else np.asarray(s0, float)
        self.lo, self.hi = lo, hi
        self._C = ndtr((hi - self.m0) / self.s0) - ndtr((lo - self.m0) / self.s0)
        self._lognorm = -float(np.sum(np.log(self.sigma))) - 0.5 * d * LOG2PI
        self._init_boundary()

    def _lp(self, x):
        s = np.log(self.in_bounds(x), dtype=float)
        for i, n in enumerate(self.names):
            z = (x[n] - self.m0[i]) / self.s0[i]
            s = s - 0.5 * z * z - math.log(self.s0[i]) - 0.5 * LOG2PI - math.log(self._C[i])
        return s

    def _ll(self, x):
        s = 0.0
        for i, n in enumerate(self.names):
            z = (x[n] - self.mu[i]) / self.sigma[i]
            s = s + z * z
        return -0.5 * s + self._lognorm

    def to_unit_hypercube(self, x):
        o = x.copy()
        for i, n in enumerate(self.names):
            o[n] = (ndtr((x[n] - self.m0[i]) / self.s0[i]) - ndtr((self.lo - self.m0[i]) / self.s0[i])) / self._C[i]
        return o

    def from_unit_hypercube(self, x):
        o = x.copy()
        for i, n in enumerate(self.names):
            o[n] = self.m0[i] + self.s0[i] * ndtri(ndtr((self.lo - self.m0[i]) / self.s0[i]) + x[n] * self._C[i])
        return o

    box_draws = False  # True: keep nessai's default uniform-in-box new_point (prior then enters through the rejection weights)

    def new_point(self, N=1):
        from nessai.livepoint import numpy_array_to_live_points

        if self.box_draws:
            return Model.new_point(self, N=N)
        u = np.random.rand(N, len(self.names))
        p = numpy_array_to_live_points(u, self.names)
        return self.from_unit_hypercube(p)

    def new_point_log_prob(self, x):
        if self.box_draws:
            return Model.new_point_log_prob(self, x)
        return self._lp(x)

    def sample_prior(self, n, rng):
        from nessai.livepoint import numpy_array_to_live_points

        p = numpy_array_to_live_points(rng.random((n, len(self.names))), self.names)
        return self.from_unit_hypercube(p)

    def prior_cdf(self, name, v):
        i = self.names.index(name)
        return (ndtr((v - self.m0[i]) / self.s0[i]) - ndtr((self.lo - self.m0[i]) / self.s0[i])) / self._C[i]

    @property
    def true_log_evidence(self):
        t = 0.0
        for i in range(len(self.names)):
            s2 = 1.0 / (1 / self.sigma[i] ** 2 + 1 / self.s0[i] ** 2)
            m = s2 * (self.mu[i] / self.sigma[i] ** 2 + self.m0[i] / self.s0[i] ** 2)
            s = math.sqrt(s2)
            tot = math.sqrt(self.sigma[i] ** 2 + self.s0[i] ** 2)
            t += (-0.5 * ((self.mu[i] - self.m0[i]) / tot) ** 2 - math.log(tot) - 0.5 * LOG2PI
                  + math.log(ndtr((self.hi - m) / s) - ndtr((self.lo - m) / s)) - math.log(self._C[i]))
        return t

    def posterior_moments(self):
        from scipy.stats import truncnorm

        out = {}
        for i, n in enumerate(self.names):
            s2 = 1.0 / (1 / self.sigma[i] ** 2 + 1 / self.s0[i] ** 2)
            m = s2 * (self.mu[i] / self.sigma[i] ** 2 + self.m0[i] / self.s0[i] ** 2)
            s = math.sqrt(s2)
            mm, v = truncnorm.stats((self.lo - m) / s, (self.hi - m) / s, loc=m, scale=s, moments="mv")
            out[n] = (float(mm), float(v))
        return out


class Ex2(ZooModel):
    """Uniform prior, likelihood built only from correctly rounded + - x: vectorised == pointwise bit for bit."""

    def __init__(self, d=2, lo=-4.0, hi=4.0):
        self.names = [f"x{i}" for i in range(d)]
        self.bounds = {n: [lo, hi] for n in self.names}
        self._logvol = d * math.log(hi - lo)
        self._init_boundary()

    def _lp(self, x):
        return np.log(self.in_bounds(x), dtype=float) - self._logvol

    def _ll(self, x):
        s = 0.0
        for n in self.names:
            s = s + x[n] * x[n]
        return -0.5 * s

    @property
    def true_log_evidence(self):
        t = 0.0
        for n in self.names:
            lo, hi = self.bounds[n]
            t += math.log(math.sqrt(2 * math.pi) * (ndtr(hi) - ndtr(lo))) - math.log(hi - lo)
        return t


class GaussConstrained(ZooModel):
    """Uniform prior on the half of the box where x0 >= x1 (zero prior in the other half: a hole *inside* the bounding box), Gaussian likelihood centred next to
    the edge of the hole.  Closed-form evidence.  The default new_point draws from the box and rejects zero-prior points, as nessai documents."""

    def __init__(self, a=0.3, lo=-5.0, hi=5.0):
        self.names = ["x0", "x1"]
        self.bounds = {n: [lo, hi] for n in self.names}
        self.mu = np.array([a, -a])
        self._logdens = math.log(2.0) - 2 * math.log(hi - lo)
        self._init_boundary()

    def in_support(self, x):
        return self.in_bounds(x) & (x["x0"] >= x["x1"])

    def _lp(self, x):
        return np.log(self.in_support(x), dtype=float) + self._logdens

    def _ll(self, x):
        return -0.5 * ((x["x0"] - self.mu[0]) ** 2 + (x["x1"] - self.mu[1]) ** 2) - LOG2PI

    def _boundary(self, x, kind="L"):
        super()._boundary(x, kind)
        if kind == "L":
            hole = ~np.atleast_1d(x["x0"] >= x["x1"])
            if np.any(hole):
                self.b_oob += int(np.sum(hole))   # a likelihood call inside the hole is a call outside the prior support
                if len(self.b_oob_examples) < 3:
                    xx = np.atleast_1d(x)
                    self.b_oob_examples.append([float(xx[nm][hole][0]) for nm in self.names])

    def log_prior_unit_hypercube(self, x):
        x = self.unstructured_view(x)
        inside = ~np.any((x < 0) | (x >= 1), axis=-1) & (x[..., 0] >= x[..., 1])
        with np.errstate(divide="ignore"):
            return np.log(inside, dtype=float) + math.log(2.0)

    @property
    def true_log_evidence(self):
        # P(x0 >= x1) under N(mu, I) is Phi((mu0 - mu1)/sqrt(2)); box truncation at > 4.7 sigma is below 1e-5
        return self._logdens + math.log(ndtr((self.mu[0] - self.mu[1]) / math.sqrt(2.0)))

    def posterior_moments(self):
        # rotate: u = (x0 - x1)/sqrt2 ~ N((mu0 - mu1)/sqrt2, 1) truncated to u >= 0, v = (x0 + x1)/sqrt2 ~ N((mu0 + mu1)/sqrt2, 1) (box truncation negligible)
        from scipy.stats import truncnorm

        mu_u, mu_v = (self.mu[0] - self.mu[1]) / math.sqrt(2.0), (self.mu[0] + self.mu[1]) / math.sqrt(2.0)
        mu_, vu = truncnorm.stats(-mu_u, np.inf, loc=mu_u, scale=1.0, moments="mv")
        return {"x0": (float(mu_ + mu_v) / math.sqrt(2.0), float(vu + 1.0) / 2.0), "x1": (float(mu_v - mu_) / math.sqrt(2.0), float(vu + 1.0) / 2.0)}

    def sample_prior(self, n, rng):
        from nessai.livepoint import numpy_array_to_live_points

        lo, hi = self.bounds["x0"]
        a = rng.uniform(lo, hi, (n, 2))
        a = np.where((a[:, :1] >= a[:, 1:2]), a, a[:, ::-1])
        return numpy_array_to_live_points(a, self.names)


class GaussFlat(GaussU):
    """Gaussian in x0, likelihood independent of x1: the live points span the whole prior range of x1 up to its edges."""

    def _ll(self, x):
        z = (x["x0"] - self.mu[0]) / self.sigma[0]
        return -0.5 * z * z - math.log(self.sigma[0]) - 0.5 * LOG2PI + 0.0 * x["x1"]

    @property
    def true_log_evidence(self):
        lo, hi = self.bounds["x0"]
        return math.log(ndtr((hi - self.mu[0]) / self.sigma[0]) - ndtr((lo - self.mu[0]) / self.sigma[0])) - math.log(hi - lo)

    def posterior_moments(self):
        # x0: truncated Gaussian; every other coordinate keeps its uniform prior
        out = {"x0": GaussU.posterior_moments(self)["x0"]}
        for n in self.names[1:]:
            lo, hi = self.bounds[n]
            out[n] = (0.5 * (lo + hi), (hi - lo) ** 2 / 12.0)
        return out


class Bimodal(ZooModel):
    """Equal mixture of two well separated isotropic Gaussians under a uniform box prior (multi-modal posterior); closed-form evidence and moments."""

    def __init__(self, d=2, sep=2.0, sigma=0.5, lo=-5.0, hi=5.0):
        self.names = [f"x{i}" for i in range(d)]
        self.bounds = {n: [lo, hi] for n in self.names}
        self.sep, self.sigma, self.d = sep, sigma, d
        self._logvol = d * math.log(hi - lo)
        self._init_boundary()

    def _lp(self, x):
        return np.log(self.in_bounds(x), dtype=float) - self._logvol

    def _comp(self, x, sign):
        s = 0.0
        for n in self.names:
            z = (x[n] - sign * self.sep) / self.sigma
            s = s + z * z
        return -0.5 * s - self.d * (math.log(self.sigma) + 0.5 * LOG2PI)

    def _ll(self, x):
        return np.logaddexp(self._comp(x, 1.0), self._comp(x, -1.0)) + math.log(0.5)

    @property
    def true_log_evidence(self):
        lo, hi = self.bounds[self.names[0]]
        m = 0.0
        for sign in (1.0, -1.0):
            m += 0.5 * (ndtr((hi - sign * self.sep) / self.sigma) - ndtr((lo - sign * self.sep) / self.sigma)) ** self.d
        return math.log(m) - self._logvol

    def posterior_moments(self):
        # truncation at >= 6 sigma is negligible: mean 0, variance sigma^2 + sep^2 in every coordinate
        return {n: (0.0, self.sigma ** 2 + self.sep ** 2) for n in self.names}

    def sample_prior(self, n, rng):
        from nessai.livepoint import numpy_array_to_live_points

        lo, hi = self.bounds[self.names[0]]
        return numpy_array_to_live_points(rng.uniform(lo, hi, (n, self.d)), self.names)


class Tie2(GaussU):
    """Gaussian likelihood rounded to a coarse grid: many exact ties and plateaus."""

    def __init__(self, d=2, step=0.1, **kw):
        super().__init__(d=d, **kw)
        self.step = step

    def _ll(self, x):
        return np.round(GaussU._ll(self, x) / self.step) * self.step


class GW5(ZooModel):
    """Uniform prior over GW-named angles with canonical ranges; smooth likelihood."""

    def __init__(self):
        self.names = ["ra", "dec", "psi", "phase", "theta_jn"]
        self.bounds = {"ra": [0.0, 2 * np.pi], "dec": [-np.pi / 2, np.pi / 2], "psi": [0.0, np.pi],
                       "phase": [0.0, 2 * np.pi], "theta_jn": [0.0, np.pi]}
        self._logvol = float(sum(math.log(b[1] - b[0]) for b in self.bounds.values()))
        self._c = {"ra": 2.0, "dec": 0.3, "psi": 1.5, "phase": 3.0, "theta_jn": 1.2}
        self._s = {"ra": 0.6, "dec": 0.3, "psi": 0.4, "phase": 0.8, "theta_jn": 0.35}
        self._init_boundary()

    def _lp(self, x):
        return np.log(self.in_bounds(x), dtype=float) - self._logvol

    def _ll(self, x):
        s = 0.0
        for n in self.names:
            z = (x[n] - self._c[n]) / self._s[n]
            s = s + z * z
        return -0.5 * s


def make(name, **kw):
    if name == "G2u":
        return GaussU(2, **kw)
    if name == "G3u":
        return GaussU(3, mu=[0.5, -1.0, 0.0], sigma=[1.0, 0.7, 1.3], **kw)
    if name == "G4u":
        return GaussU(4, mu=[0.5, -1.0, 0.0, 1.5], sigma=[1.0, 0.7, 1.3, 0.9], **kw)
    if name == "G2n":
        return GaussTN(2, **kw)
    if name == "G2r":
        m = GaussTN(2, **kw)
        m.box_draws = True
        return m
    if name == "G2e":
        # posterior piled against two prior bounds: flows trained on it put mass beyond the faces of the unit hypercube (clipped / eps-clamped samples)
        return GaussU(2, mu=[4.8, -4.8], sigma=[0.6, 0.6], **kw)
    if name == "G2rn":
        # narrow truncated-normal prior on [-1, 1]^2 (density up to ~4, i.e. log-weights above zero for box draws), nessai's default box-uniform new_point
        m = GaussTN(2, mu=[0.1, -0.1], sigma=[0.15, 0.15], m0=[0.0, 0.0], s0=[0.2, 0.2], lo=-1.0, hi=1.0, **kw)
        m.box_draws = True
        return m
    if name == "Bi2":
        return Bimodal(2, **kw)
    if name == "G2c":
        return GaussConstrained(**kw)
    if name == "G2f":
        return GaussFlat(2, **kw)
    if name == "G2a":
        return GaussAsym(**kw)
    if name == "G2ar":
        return GaussAsymReordered(**kw)
    if name == "G2h":
        return GaussHardCut(2, **kw)
    if name == "G2k":
        return GaussUNoBoundsCheck(2, mu=[3.2, -3.0], **kw)   # posterior mass near two faces of the box, so proposals do reach beyond it
    if name == "G2o":
        return GaussOffset(-2000.0, **kw)
    if name == "G2p":
        return GaussOffset(900.0, **kw)
    if name == "Ex2":
        return Ex2(2, **kw)
    if name == "Tie2":
        return Tie2(2, **kw)
    if name == "GW5":
        return GW5(**kw)
    raise KeyError(name)
