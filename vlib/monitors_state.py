"""Process-global monitor counters (dumped by the SIGUSR1 watchdog handler)."""
COUNTERS = {}


def count(name, n=1):
    COUNTERS[name] = COUNTERS.get(name, 0) + n


def snapshot_and_reset():
    global COUNTERS
    c = dict(COUNTERS)
    COUNTERS.clear()
    return c
