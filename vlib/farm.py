"""16-way case farm: long-lived subprocess workers speaking JSON lines (never multiprocessing.Pool)."""
import json
import os
import queue
import select
import signal
import subprocess
import sys
import threading
import time

from .common import ROOT, jdump

PY = "/venv/bin/python"


class _Worker:
    def __init__(self, target, logpath, env):
        self.target, self.logpath, self.env = target, logpath, env
        self.proc = None
        self.start()

    def start(self):
        r, w = os.pipe()
        env = dict(os.environ)
        env.update(self.env or {})
        env["VERIF_RESFD"] = str(w)
        env["PYTHONPATH"] = f"{ROOT}:{ROOT}/.deps" + (":" + env["PYTHONPATH"] if env.get("PYTHONPATH") else "")
        self.log = open(self.logpath, "ab")
        self.proc = subprocess.Popen([PY, "-m", "vlib.worker", self.target], stdin=subprocess.PIPE, stdout=self.log,
                                     stderr=self.log, pass_fds=[w], env=env, cwd=ROOT, start_new_session=True)
        os.close(w)
        self.rfd = r
        self.buf = b""
        msg = self.read(180)
        if not (isinstance(msg, dict) and msg.get("_ready")):
            raise RuntimeError(f"worker failed to start: {msg!r}; see {self.logpath}")

    def read(self, timeout):
        """One JSON line, or 'timeout' / 'eof'."""
        end = time.time() + timeout
        while b"\n" not in self.buf:
            left = end - time.time()
            if left <= 0:
                return "timeout"
            rl, _, _ = select.select([self.rfd], [], [], min(left, 1.0))
            if rl:
                chunk = os.read(self.rfd, 1 << 16)
                if not chunk:
                    return "eof"
                self.buf += chunk
        line, self.buf = self.buf.split(b"\n", 1)
        return json.loads(line)

    def send(self, case):
        self.proc.stdin.write((jdump(case) + "\n").encode())
        self.proc.stdin.flush()

    def kill(self, dump=True):
        try:
            if dump and self.proc.poll() is None:
                os.kill(self.proc.pid, signal.SIGUSR1)
                time.sleep(1.0)
            os.killpg(self.proc.pid, signal.SIGKILL)
        except (ProcessLookupError, PermissionError):
            pass
        try:
            self.proc.wait(10)
        except Exception:
            pass
        try:
            os.close(self.rfd)
        except OSError:
            pass
        try:
            self.proc.stdin.close()
        except Exception:
            pass
        self.log.close()

    def close(self):
        try:
            self.proc.stdin.close()
            self.proc.wait(20)
        except Exception:
            self.kill(dump=False)
            return
        try:
            os.close(self.rfd)
        except OSError:
            pass
        self.log.close()


def run_cases(cases, target, scratch, nproc=16, timeout=600, env=None, progress=None):
    """Run every case through `target` ("module:function") in a farm of subprocess workers.

    Returns a list of results in case order.  A result is the worker function's dict, or
    {"_watchdog": True, "_log_tail": ...} if the wall-clock watchdog fired (inconclusive by itself),
    or {"_died": exitcode, ...} if the worker process died while running the case.
    """
    cases = list(cases)
    results = [None] * len(cases)
    q = queue.Queue()
    for i, c in enumerate(cases):
        q.put((i, c))
    nproc = max(1, min(nproc, len(cases)))
    lock = threading.Lock()
    done = [0]
    errors = []

    def tail(path, n=2500):
        try:
            with open(path, "rb") as f:
                f.seek(0, 2)
                size = f.tell()
                f.seek(max(0, size - n))
                return f.read().decode(errors="replace")
        except OSError:
            return ""

    def loop(wid):
        logpath = os.path.join(scratch, f"worker-{wid}.log")
        try:
            w = _Worker(target, logpath, env)
        except Exception as e:
            errors.append(repr(e))
            return
        while True:
            try:
                i, case = q.get_nowait()
            except queue.Empty:
                break
            tmo = case.get("_timeout", timeout) if isinstance(case, dict) else timeout
            try:
                w.send(case)
                res = w.read(tmo)
            except (BrokenPipeError, OSError):
                res = "eof"
            if res == "timeout":
                w.kill(dump=True)
                res = {"_watchdog": True, "_log_tail": tail(logpath)}
                w = _Worker(target, logpath, env)
            elif res == "eof":
                rc = w.proc.wait()
                w.kill(dump=False)
                res = {"_died": rc, "_log_tail": tail(logpath)}
                w = _Worker(target, logpath, env)
            results[i] = res
            with lock:
                done[0] += 1
                if progress:
                    progress(done[0], len(cases), case, res)
        w.close()

    threads = [threading.Thread(target=loop, args=(k,), daemon=True) for k in range(nproc)]
    for t in threads:
        t.start()
    for t in threads:
        t.join()
    if errors and any(r is None for r in results):
        raise RuntimeError("farm workers failed: " + "; ".join(errors[:3]))
    return results


def run_subprocess(argv, timeout, cwd=None, env=None, stdin=None):
    """One bounded child process (for cases that must own their process). Returns (rc|'timeout', out, err)."""
    e = dict(os.environ)
    e.update(env or {})
    e["PYTHONPATH"] = f"{ROOT}:{ROOT}/.deps"
    try:
        p = subprocess.run(argv, cwd=cwd, env=e, capture_output=True, timeout=timeout, input=stdin)
        return p.returncode, p.stdout.decode(errors="replace"), p.stderr.decode(errors="replace")
    except subprocess.TimeoutExpired as ex:
        return "timeout", (ex.stdout or b"").decode(errors="replace"), (ex.stderr or b"").decode(errors="replace")
