"""Configuration matrices for the run-level checks (DESIGN 2.2)."""
import numpy as np

from .common import rng_for

# (name, model, kwargs, resume_at) — the fixed standard-sampler matrix; every cell is tiny-flow and bounded.
STD_CELLS = [
    ("default-G2u", "G2u", {}),
    ("default-G4u", "G4u", {"max_iteration": 900}),
    ("nonuniform-analytic", "G2n", {"analytic_priors": True}),
    ("nonuniform-rejection", "G2n", {}),
    ("nonuniform-rejection-box-draws", "G2r", {}),
    ("narrow-prior-rejection-box-draws", "G2rn", {}),
    ("constrained-prior", "G2c", {}),
    ("constrained-prior-leaky-uninformed", "G2c", {"uninformed_proposal": "leaky", "maximum_uninformed": 150}),
    ("flat-direction-prime-prior", "G2f", {"reparameterisations": {"x0": {"reparameterisation": "rescaletobounds", "rescale_bounds": [0.0, 1.0], "prior": "uniform"},
                                                                  "x1": {"reparameterisation": "rescaletobounds", "rescale_bounds": [0.0, 1.0], "prior": "uniform"}}}),
    ("flat-direction-default", "G2f", {}),
    ("bimodal-default", "Bi2", {"max_iteration": 1200}),
    ("bimodal-clustering-inversion", "Bi2", {"flow_proposal_class": "ClusteringFlowProposal", "reparameterisations": {"x0": "inversion", "x1": "default"}, "max_iteration": 1200}),
    ("ties-nlive50", "Tie2", {"nlive": 50, "stopping": 0.5}),
    ("ties-analytic", "Tie2", {"nlive": 100, "stopping": 0.5, "analytic_priors": True}),
    ("gw-proposal", "GW5", {"flow_proposal_class": "GWFlowProposal", "max_iteration": 500}),
    ("gw-model-plain-proposal", "GW5", {"max_iteration": 500}),
    ("clustering", "G2u", {"flow_proposal_class": "ClusteringFlowProposal", "max_iteration": 600}),
    ("augmented-marginalised", "G2u", {"flow_proposal_class": "AugmentedFlowProposal", "marginalise_augment": True, "n_marg": 5, "max_iteration": 500}),
    ("augmented", "G2u", {"flow_proposal_class": "AugmentedFlowProposal", "max_iteration": 600}),
    ("augmented-3-dims", "G2u", {"flow_proposal_class": "AugmentedFlowProposal", "augment_dims": 3, "max_iteration": 500}),
    ("augmented-2-dims-logit", "G2u", {"flow_proposal_class": "AugmentedFlowProposal", "augment_dims": 2, "reparameterisations": {"x0": "logit", "x1": "logit"}, "max_iteration": 500}),
    ("no-uninformed", "G2u", {"maximum_uninformed": 0}),
    ("latent-nball", "G2u", {"latent_prior": "uniform_nball"}),
    ("latent-nball-novolume", "G2u", {"latent_prior": "uniform_nball", "constant_volume_mode": False}),
    ("latent-gaussian", "G2u", {"latent_prior": "gaussian", "constant_volume_mode": False, "max_iteration": 500}),
    ("latent-flow", "G2u", {"latent_prior": "flow", "constant_volume_mode": False, "max_iteration": 500}),
    ("radius-worst-point", "G2u", {"constant_volume_mode": False}),
    ("radius-fixed", "G2u", {"constant_volume_mode": False, "fixed_radius": 2.5}),
    ("radius-min-max", "G2u", {"constant_volume_mode": False, "min_radius": 1.0, "max_radius": 3.0}),
    ("radius-with-all", "G2u", {"constant_volume_mode": False, "compute_radius_with_all": True}),
    ("truncate-log-q", "G2u", {"truncate_log_q": True, "max_iteration": 500}),
    ("accumulate-weights", "G2u", {"accumulate_weights": True}),
    ("drawsize-small", "G2u", {"drawsize": 20}),
    ("reparam-logit", "G2u", {"reparameterisations": {"x0": "logit", "x1": "logit"}}),
    ("reparam-inversion-split", "G2u", {"reparameterisations": {"x0": "inversion", "x1": "default"}}),
    ("reparam-inversion-duplicate", "G2u", {"reparameterisations": {"x0": "inversion-duplicate", "x1": "default"}}),
    ("reparam-zscore-null", "G2u", {"reparameterisations": {"x0": "zscore", "x1": "null"}}),
    ("reparam-angle", "GW5", {"reparameterisations": {"ra": "angle-2pi", "psi": "angle-pi", "dec": "default", "phase": "periodic", "theta_jn": "angle-sine"}, "max_iteration": 400}),
    ("flow-maf", "G2u", {"flow_config": {"ftype": "maf"}}),
    ("flow-nsf", "G2u", {"flow_config": {"ftype": "nsf"}, "max_iteration": 500}),
    ("flow-batchnorm-lu", "G4u", {"flow_config": {"batch_norm_between_layers": True, "linear_transform": "lu"}, "max_iteration": 600}),
    ("nlive-10", "G2u", {"nlive": 10}),
    ("nlive-300", "G2u", {"nlive": 300, "max_iteration": 1200}),
    ("memory", "G2u", {"memory": 50}),
    ("reset-weights", "G2u", {"reset_weights": 2, "reset_permutations": 1}),
    ("reset-flow", "G2u", {"reset_flow": 2}),
    ("training-frequency", "G2u", {"training_frequency": 60, "cooldown": 20}),
    ("uninformed-50", "G2u", {"maximum_uninformed": 50}),
    ("shrinkage-t", "G2u", {"shrinkage_expectation": "t"}),
    ("pool-2", "G2u", {"n_pool": 2}),
    ("capped-300", "G2u", {"max_iteration": 300}),
    ("prior-sampling", "G2u", {"prior_sampling": True}),
    # nessai's default is plot=True: periodic state / trace / proposal plots are produced while sampling
    ("default-with-plots", "G2u", {"plot": True, "nlive": 50}),
    # uniform prior written without a bounds test: only the samplers' own checks keep the points inside the box
    ("prior-without-bounds-check", "G2k", {}),
    ("prior-without-bounds-check-logit-novolume", "G2k", {"reparameterisations": {"x0": "logit", "x1": "null"}, "constant_volume_mode": False}),
    # the process dies right after the 2nd training that an empty pool triggered while a replacement was being drawn; with checkpoint_on_training such a training asks
    # for a checkpoint in the middle of the iteration
    ("killed-after-mid-iteration-training", "G2u", {"checkpoint_on_training": True, "checkpoint_on_iteration": True, "checkpoint_interval": 1, "_stop_after_mid_iteration_training": 2}),
    ("killed-after-mid-iteration-training-time-schedule", "G2u", {"checkpoint_on_training": True, "checkpoint_on_iteration": False, "checkpoint_interval": 0.0, "_stop_after_mid_iteration_training": 1}),
    ("prior-sampling-checkpointing", "G2u", {"prior_sampling": True, "checkpointing": True}),
    # proposal parameter order differs from the model's (only the second parameter is named, the first is appended by default) on a model without exchange symmetry
    ("asym-bounds-dict-reordered", "G2ar", {}),
    ("asym-reordered-reparam", "G2a", {"reparameterisations": {"x1": "default"}}),
    ("asym-reordered-logit-zscore", "G2a", {"reparameterisations": {"x1": "logit", "x0": "zscore"}}),
    ("logL-minus-2000", "G2o", {}),
    ("logL-plus-900", "G2p", {}),
    ("tolerance-tight", "G2u", {"stopping": 1e-3, "max_iteration": 1500}),
    ("tolerance-loose", "G2u", {"stopping": 0.5}),
]

QUICK_STD = ["default-G2u", "default-G4u", "nonuniform-analytic", "nonuniform-rejection-box-draws", "constrained-prior", "constrained-prior-leaky-uninformed", "flat-direction-prime-prior", "bimodal-default", "ties-nlive50", "ties-analytic", "gw-proposal", "clustering", "augmented-marginalised", "augmented", "augmented-3-dims", "augmented-2-dims-logit", "no-uninformed",
             "latent-nball", "latent-nball-novolume", "latent-gaussian", "latent-flow", "radius-worst-point", "radius-min-max", "truncate-log-q", "accumulate-weights", "drawsize-small",
             "reparam-logit", "reparam-inversion-split", "reparam-inversion-duplicate", "reparam-angle", "flow-maf", "flow-nsf", "nlive-10", "nlive-300",
             "memory", "reset-weights", "uninformed-50", "shrinkage-t", "pool-2", "capped-300", "prior-sampling", "prior-sampling-checkpointing", "asym-bounds-dict-reordered", "asym-reordered-reparam", "asym-reordered-logit-zscore", "logL-minus-2000", "logL-plus-900", "tolerance-loose",
             "killed-after-mid-iteration-training", "killed-after-mid-iteration-training-time-schedule",
             "prior-without-bounds-check", "prior-without-bounds-check-logit-novolume", "default-with-plots"]


GEN_AXES = dict(
    model=["G2u", "G2n", "G4u", "Tie2", "G2r", "G3u", "G2c", "G2f", "Bi2"],
    flow_proposal_class=[None, None, "AugmentedFlowProposal", "ClusteringFlowProposal"],
    latent=[{}, {}, {"latent_prior": "uniform_nball"}, {"latent_prior": "uniform_nball", "constant_volume_mode": False}, {"constant_volume_mode": False},
            {"constant_volume_mode": False, "fixed_radius": 2.5}, {"latent_prior": "gaussian", "constant_volume_mode": False}, {"latent_prior": "flow", "constant_volume_mode": False},
            {"constant_volume_mode": False, "compute_radius_with_all": True}, {"volume_fraction": 0.8}],
    reparam=[None, None, "logit", "zscore", "inversion", "inversion-duplicate", "null", "rescaletobounds"],
    ftype=["realnvp", "realnvp", "maf", "nsf"],
    nlive=[10, 30, 50, 100, 100, 200],
    uninformed=[{}, {}, {"maximum_uninformed": 0}, {"maximum_uninformed": 40}, {"analytic_priors": True}],
    policy=[{}, {}, {"memory": 40}, {"reset_weights": 2}, {"reset_flow": 2}, {"training_frequency": 50, "cooldown": 10}, {"train_on_empty": False, "training_frequency": 60},
            {"retrain_acceptance": False}],
    pool=[{}, {}, {"truncate_log_q": True}, {"drawsize": 25}, {"poolsize": 30}, {"update_poolsize": False}, {"check_acceptance": True}],
    misc=[{}, {}, {"shrinkage_expectation": "t"}, {"stopping": 0.5}, {"stopping": 0.02}, {"max_iteration": 250}],
)


def generated_std_cases(seed, n, scratch, start=0):
    """Seeded random combinations over the option axes (thorough tiers): diversity beyond the fixed cells. Invalid combinations are rejected by nessai up front and counted."""
    import os

    out = []
    for i in range(n):
        rng = rng_for(seed, "genstd", i)
        pick = {k: v[int(rng.integers(len(v)))] for k, v in GEN_AXES.items()}
        kw = {}
        if pick["flow_proposal_class"]:
            kw["flow_proposal_class"] = pick["flow_proposal_class"]
        for k in ("latent", "uninformed", "policy", "pool", "misc"):
            kw.update(pick[k])
        if pick["reparam"]:
            kw["reparameterisations"] = pick["reparam"]
        kw["flow_config"] = {"ftype": pick["ftype"]}
        kw["nlive"] = pick["nlive"]
        if pick["model"] == "Tie2":
            kw["stopping"] = max(kw.get("stopping", 0.5), 0.5)
        kw.setdefault("max_iteration", int(12 * kw["nlive"] + 200))
        kw["seed"] = int(rng.integers(1, 2**31 - 1))
        resume_at = int(kw["nlive"] * rng.uniform(0.6, 2.5)) if i % 3 == 1 else None
        out.append(dict(name=f"gen#{i}", cell=f"gen-{pick['model']}-{pick['flow_proposal_class'] or 'FlowProposal'}-{pick['ftype']}", model=pick["model"], kwargs=kw, resume_at=resume_at,
                        checkpoint_interval=int(max(5, kw["nlive"] * 0.4)), outdir=os.path.join(scratch, f"gen-{start + i}"), _timeout=240, generated=True))
    return out


def std_cases(seed, tier, scratch, resume_fraction=3, names=None):
    """Cases for run_standard: quick = one seed over the quick list; thorough = every cell x several seeds."""
    import os

    cells = {c[0]: c for c in STD_CELLS}
    full_matrix = names is None
    if names is None:
        names = QUICK_STD if tier == "quick" else [c[0] for c in STD_CELLS]
    reps = 1 if tier == "quick" else 6
    out = []
    k = 0
    for rep in range(reps):
        for nm in names:
            _, model, kw = cells[nm]
            rng = rng_for(seed, "stdcase", nm, rep)
            kw = dict(kw)
            kw["seed"] = int(rng.integers(1, 2**31 - 1))
            nlive = kw.get("nlive", 100)
            resume_at = None
            stop_mid = kw.pop("_stop_after_mid_iteration_training", None)
            if k % resume_fraction == 1 and not kw.get("prior_sampling") and not kw.get("n_pool") and not stop_mid:
                resume_at = int(nlive * rng.uniform(0.6, 2.5))
            out.append(dict(name=f"{nm}#{rep}", cell=nm, model=model, kwargs=kw, resume_at=resume_at, checkpoint_interval=int(max(5, nlive * 0.4)),
                            outdir=os.path.join(scratch, f"run-{k}"), _timeout=150))
            if stop_mid:
                out[-1]["stop_after_mid_iteration_training"] = stop_mid
            k += 1
    if tier == "thorough" and full_matrix:
        out += generated_std_cases(seed, 400, scratch)
    return out


# (name, model, kwargs, resume_at) — importance nested sampler matrix; every cell carries an iteration cap.
INS_CELLS = [
    ("ins-default", "G2u", {}, None),
    ("ins-default-G4u", "G4u", {"nlive": 400, "min_samples": 100}, None),
    ("ins-nonuniform", "G2n", {}, None),
    ("ins-strict", "G2u", {"strict_threshold": True}, None),
    ("ins-strict-resume", "G2u", {"strict_threshold": True}, [2]),
    ("ins-resume-twice-saved-logq", "G2u", {"save_log_q": True}, [2, 4]),
    ("ins-resume-rederived-logq", "G2u", {"save_log_q": False}, [3]),
    ("ins-replace-all", "G2u", {"replace_all": True}, None),
    ("ins-replace-all-resume", "G2n", {"replace_all": True, "draw_constant": False, "save_log_q": True}, [2]),
    ("ins-draw-variable", "G2u", {"draw_constant": False}, None),
    ("ins-no-iid", "G2u", {"draw_iid_live": False}, None),
    ("ins-no-iid-strict", "G4u", {"draw_iid_live": False, "strict_threshold": True, "nlive": 400, "min_samples": 100}, None),
    ("ins-maf", "G2u", {"flow_config": {"ftype": "maf"}, "max_iteration": 8}, None),
    ("ins-nsf", "G2u", {"flow_config": {"ftype": "nsf"}, "max_iteration": 8}, None),
    ("ins-noreparam", "G2u", {"reparameterisation": None, "max_iteration": 8}, None),
    ("ins-noreparam-clip", "G4u", {"reparameterisation": None, "clip": True, "max_iteration": 8}, None),
    ("ins-logit-clip", "G2u", {"clip": True}, None),
    ("ins-quantile", "G2u", {"threshold_method": "quantile", "threshold_kwargs": {"q": 0.7}}, None),
    ("ins-entropy-q", "G2u", {"threshold_kwargs": {"q": 0.3, "include_likelihood": True}}, None),
    ("ins-min-samples", "G2u", {"min_samples": 150, "min_remove": 20}, None),
    ("ins-max-samples", "G2u", {"max_samples": 450, "min_samples": 50}, None),
    ("ins-n-update", "G2u", {"n_update": 60}, None),
    ("ins-multi-criteria-all", "G2u", {"stopping_criterion": ["ess", "log_dZ"], "tolerance": [1500.0, 0.01], "check_criteria": "all", "max_iteration": 15}, None),
    ("ins-multi-criteria-any", "G2u", {"stopping_criterion": ["ratio", "Z_err"], "tolerance": [0.0, 1.02], "check_criteria": "any", "max_iteration": 15}, None),
    ("ins-criteria-noncanonical-order-all", "G2u", {"stopping_criterion": ["fractional_error", "ratio"], "tolerance": [0.05, 0.0], "check_criteria": "all", "max_iteration": 15}, None),
    ("ins-criteria-noncanonical-order-any", "G2u", {"stopping_criterion": ["log_evidence", "ratio"], "tolerance": [0.005, -1.5], "check_criteria": "any", "max_iteration": 15}, None),
    ("ins-fractional-error", "G2u", {"stopping_criterion": "fractional_error", "tolerance": 0.03, "max_iteration": 15}, None),
    ("ins-min-iteration", "G2u", {"min_iteration": 7, "max_iteration": 15}, None),
    ("ins-weighted-kl", "G2u", {"weighted_kl": True}, None),
    ("ins-no-reset-flow", "G2u", {"reset_flow": False}, None),
    ("ins-pool", "G2u", {"n_pool": 2}, None),
    ("ins-constrained-prior", "G2c", {}, None),
    ("ins-constrained-prior-strict-resume", "G2c", {"strict_threshold": True, "save_log_q": True}, [2]),
    ("ins-bimodal", "Bi2", {"nlive": 400, "min_samples": 100}, None),
    ("ins-edge-peaked-noreparam-clip", "G2e", {"reparameterisation": None, "clip": True, "max_iteration": 8}, None),
    ("ins-edge-peaked-logit-maf", "G2e", {"flow_config": {"ftype": "maf"}, "max_iteration": 8}, None),
    ("ins-prior-without-bounds-check-noreparam", "G2k", {"reparameterisation": None, "max_iteration": 8}, None),
    ("ins-prior-without-bounds-check-logit-resume", "G2k", {}, [2]),
    # likelihood with plateaus (many exactly tied values): batches tie with stored samples and with the threshold
    ("ins-ties", "Tie2", {"max_iteration": 8}, None),
    ("ins-ties-strict-resume", "Tie2", {"strict_threshold": True, "max_iteration": 8, "save_log_q": True}, [2]),
    ("ins-default-with-plots", "G2u", {"plot": True, "max_iteration": 8}, [3]),
    ("ins-gw5", "GW5", {"nlive": 400, "min_samples": 100, "max_iteration": 8}, None),
    # no i.i.d. set, and the kept part of the live set falls below the training floor (cap below the floor / fixed update index)
    ("ins-no-iid-max-samples-below-floor", "G2u", {"draw_iid_live": False, "min_samples": 150, "max_samples": 300}, None),
    ("ins-no-iid-n-update-below-floor", "G2u", {"draw_iid_live": False, "n_update": 150, "min_samples": 100}, None),
    # likelihood exactly zero over ~80 % of the prior, training-set floor close to nlive
    ("ins-zero-likelihood-region-min-samples", "G2h", {"min_samples": 150}, None),
    ("ins-zero-likelihood-region-strict", "G2h", {"min_samples": 120, "strict_threshold": True, "min_remove": 10}, None),
    # numerically extreme likelihood magnitudes: exp(logL + logW) under- / overflows in float64
    ("ins-logL-minus-2000-Zerr", "G2o", {"stopping_criterion": "Z_err", "tolerance": 1.03, "max_iteration": 15}, None),
    ("ins-logL-minus-2000-default", "G2o", {}, None),
    ("ins-logL-minus-2000-quantile-with-likelihood", "G2o", {"threshold_method": "quantile", "threshold_kwargs": {"q": 0.7, "include_likelihood": True}}, None),
    ("ins-logL-plus-900-entropy-with-likelihood", "G2p", {"threshold_kwargs": {"q": 0.5, "include_likelihood": True}}, None),
    ("ins-logL-plus-900-fractional-error", "G2p", {"stopping_criterion": "fractional_error", "tolerance": 0.03, "max_iteration": 15}, None),
    ("ins-logL-plus-900-Zerr-ess-all", "G2p", {"stopping_criterion": ["Z_err", "ess"], "tolerance": [1.03, 800.0], "check_criteria": "all", "max_iteration": 15}, None),
]

# every stopping criterion and alias on its own (thorough tiers)
for _name, _tol in (("ratio_ns", 0.0), ("Z_err", 1.03), ("evidence_error", 1.03), ("log_dZ", 0.01), ("log_evidence", 0.01), ("ess", 1200.0), ("fractional_error", 0.03), ("ratio", -0.5)):
    INS_CELLS.append((f"ins-criterion-{_name}", "G2u", {"stopping_criterion": _name, "tolerance": _tol, "max_iteration": 15}, None))

QUICK_INS = [c[0] for c in INS_CELLS if not c[0].startswith("ins-criterion-")]


def ins_cases(seed, tier, scratch, names=None):
    import os

    cells = {c[0]: c for c in INS_CELLS}
    if names is None:
        names = QUICK_INS if tier == "quick" else [c[0] for c in INS_CELLS]
    reps = 1 if tier == "quick" else 8
    out = []
    k = 0
    for rep in range(reps):
        for nm in names:
            _, model, kw, resume_at = cells[nm]
            rng = rng_for(seed, "inscase", nm, rep)
            kw = dict(kw)
            kw["seed"] = int(rng.integers(1, 2**31 - 1))
            out.append(dict(name=f"{nm}#{rep}", cell=nm, model=model, kwargs=kw, resume_at=resume_at, outdir=os.path.join(scratch, f"ins-{k}"), _timeout=240))
            k += 1
    return out
