"""Monitors for the importance nested sampler (C03, C04 in situ, C09 unit-hypercube clause, C15, C17 in situ)."""
import numpy as np
from scipy.special import logsumexp

from .standard import ulp_close_arr, AbortRun, BudgetExceeded, StopRun

F32_TOL = 2e-4


def own_logit(x, eps):
    """The documented map of the 'logit' reparameterisation with its clamp, written independently of nessai."""
    xc = np.clip(x, eps, 1.0 - eps)
    xp = np.log(xc) - np.log1p(-xc)
    log_j = (-np.log(xc) - np.log1p(-xc)).sum(axis=1)
    return xp, log_j


class INSMonitors:
    def __init__(self, model, stop_at_iteration=None, max_problems=12, iteration_budget=200):
        self.model = model
        self.problems = []
        self.counts = {}
        self.max_problems = max_problems
        self.abort_after = 6
        self.abort_props = None
        self.abort_pending = False
        self.stop_at_iteration = stop_at_iteration
        self.iteration_budget = iteration_budget
        self._patched = []
        self.guard_trace = []       # (iteration at entry of a loop body, criterion before, reached?, min_iteration)
        self.criteria_trace = []    # (iteration, dict of criterion values recomputed, dict reported)
        self.max_rel = 0.0          # worst relative density disagreement observed
        self.eps_band_samples = 0
        self.finalise_calls = 0
        self.loop_entries = 0
        self.after_resume_pending = False
        self.rederived = set()

    def bump(self, k, n=1):
        self.counts[k] = self.counts.get(k, 0) + n

    def problem(self, prop, key, detail):
        if sum(1 for q in self.problems if q[0] == prop) < self.max_problems:  # cap per property, so one property cannot crowd out another
            self.problems.append((prop, key, str(detail)[:400]))
        # only witnesses of the properties the running check decides may cut the run short
        self.abort_pending = sum(1 for q in self.problems if self.abort_props is None or q[0] in self.abort_props) >= self.abort_after

    def _patch(self, cls, name, factory):
        orig = cls.__dict__.get(name)
        if orig is None:
            return
        setattr(cls, name, factory(orig))
        self._patched.append((cls, name, orig))

    def disarm(self):
        for cls, name, orig in reversed(self._patched):
            setattr(cls, name, orig)
        self._patched = []

    # ------------------------------------------------------------------ arming
    def arm(self):
        from nessai.samplers.importancesampler import ImportanceNestedSampler as INS
        from nessai.proposal.importance import ImportanceFlowProposal

        mon = self

        def update_evidence_factory(orig):
            def update_evidence(ns):
                r = orig(ns)
                mon.check_samples(ns, where="iteration-end")
                return r
            return update_evidence

        def finalise_factory(orig):
            def finalise(ns):
                already = ns.finalised
                live_before = {}
                for nm in ("training_samples", "iid_samples"):
                    st = getattr(ns, nm, None)
                    if st is not None and st.live_points_indices is not None:
                        live_before[nm] = (len(st.live_points_indices), len(st.nested_samples_indices))
                mon.check_exit_guard(ns)
                r = orig(ns)
                if not already:
                    mon.finalise_calls += 1
                    mon.check_finalise(ns, live_before)
                return r
            return finalise

        def gradient_factory(orig):
            def _compute_gradient(ns):
                # first statement of every loop body: the loop guard has just been evaluated as False
                mon.check_entry_guard(ns)
                return orig(ns)
            return _compute_gradient

        def criterion_factory(orig):
            def compute_stopping_criterion(ns):
                r = orig(ns)
                mon.check_criteria(ns, r)
                return r
            return compute_stopping_criterion

        def threshold_factory(orig):
            def determine_log_likelihood_threshold(ns, samples, method="entropy", **kw):
                r = orig(ns, samples, method=method, **kw)
                mon.check_threshold(ns, samples, r)
                return r
            return determine_log_likelihood_threshold

        def train_factory(orig):
            def train(prop, samples, *a, **k):
                mon.check_training_set(prop, samples)
                return orig(prop, samples, *a, **k)
            return train

        def history_factory(orig):
            def update_history(ns):
                r = orig(ns)
                mon.check_history_row(ns)
                if mon.abort_pending:
                    raise AbortRun(f"{len(mon.problems)} problems recorded")
                if ns.iteration + 1 > mon.iteration_budget:
                    raise BudgetExceeded(f"INS iterations > {mon.iteration_budget}")
                if mon.stop_at_iteration is not None and ns.iteration + 1 >= mon.stop_at_iteration:
                    mon.stop_at_iteration = None
                    mon.stop_requested = True
                return r
            return update_history

        def checkpoint_factory(orig):
            def checkpoint(ns, *a, **k):
                r = orig(ns, *a, **k)
                if getattr(mon, "stop_requested", False) and k.get("periodic", a[0] if a else False):
                    mon.stop_requested = False
                    raise StopRun(ns.iteration)
                return r
            return checkpoint

        def resume_factory(orig):
            def resume_from_pickled_sampler(cls, *a, **k):
                obj = orig.__func__(cls, *a, **k)
                mon.model = obj.model
                mon.check_samples(obj, where="after-resume")
                return obj
            return classmethod(resume_from_pickled_sampler)

        self._patch(INS, "update_evidence", update_evidence_factory)
        self._patch(INS, "finalise", finalise_factory)
        self._patch(INS, "_compute_gradient", gradient_factory)
        self._patch(INS, "compute_stopping_criterion", criterion_factory)
        self._patch(INS, "determine_log_likelihood_threshold", threshold_factory)
        self._patch(INS, "update_history", history_factory)
        self._patch(INS, "checkpoint", checkpoint_factory)
        self._patch(INS, "resume_from_pickled_sampler", resume_factory)
        self._patch(ImportanceFlowProposal, "train", train_factory)
        return self

    # ------------------------------------------------------------------ C03 (+ C04/C09 in situ)
    def check_samples(self, ns, where):
        from nessai import config

        eps = config.general.eps
        prop = ns.proposal
        for set_name in ("training_samples", "iid_samples"):
            store = getattr(ns, set_name, None)
            if store is None or store.samples is None:
                continue
            self.bump("C03.sample_set_checks")
            P = lambda key, d, prop_id="C03": self.problem(prop_id, f"{key}", f"{where} it={ns.iteration} {set_name}: {d}")
            s = store.samples
            lq = store.log_q
            N = len(s)
            x = np.stack([s[n] for n in self.model.names], axis=1)
            # ---- unit hypercube membership (C03/C09)
            if np.any((x < 0) | (x > 1)):
                P("sample-outside-unit-hypercube", int(np.sum(np.any((x < 0) | (x > 1), axis=1))))
            # ---- store structure in situ (C04)
            if np.any(np.diff(s["logL"]) < 0):
                P("store-not-sorted", "", "C04")
            ni = store.nested_samples_indices
            li = store.live_points_indices if store.live_points_indices is not None else np.empty(0, dtype=int)
            if np.any(np.diff(ni) <= 0) or np.any(np.diff(li) <= 0) or not np.array_equal(np.sort(np.concatenate([ni, li])), np.arange(N)):
                P("index-sets-do-not-partition-store", (len(ni), len(li), N), "C04")
            if store.strict_threshold and store.log_likelihood_threshold is not None and len(li) and where == "iteration-end":
                if not np.array_equal(np.sort(li), np.flatnonzero(s["logL"] >= store.log_likelihood_threshold)):
                    P("strict-live-set-differs-from-samples-at-or-above-threshold", "", "C04")
            self.bump("C04.insitu_store_checks")
            # ---- shape
            n_prop = prop.n_proposals
            if lq is None:
                P("log_q-table-missing", "")
                continue
            if lq.shape != (N, n_prop):
                P("log_q-shape", (lq.shape, N, n_prop))
                continue
            if n_prop != prop.level_count + 2:
                P("proposal-count", (n_prop, prop.level_count))
            # ---- weights from the data (fraction of samples drawn per proposal)
            its = s["it"].astype(int)
            counts = np.bincount(its + 1, minlength=n_prop)
            w_data = counts / N
            w_prop = np.array([prop._weights.get(j - 1, np.nan) for j in range(n_prop)])
            if len(prop._weights) != n_prop or not np.allclose(w_prop, w_data, rtol=0, atol=1e-12):
                P("mixture-weights-differ-from-sample-fractions", dict(stored=w_prop.tolist()[:6], from_data=w_data.tolist()[:6]))
            if abs(np.sum(w_prop) - 1) > 1e-12:
                P("mixture-weights-do-not-sum-to-one", float(np.sum(w_prop)))
            # ---- independent re-evaluation of every per-proposal density
            # "clamp band": samples the documented map itself clamps (logit with eps) or clips (clip=True) onto/near a face
            if prop.reparameterisation == "logit":
                xp, log_j = own_logit(x, eps)
                band = np.any((x < eps) | (x > 1 - eps), axis=1)
            else:
                xp, log_j = x.copy(), np.zeros(N)
                band = np.any((x <= 0) | (x >= 1), axis=1) if prop.clip else np.zeros(N, dtype=bool)
            self.eps_band_samples += int(band.sum())
            ref = np.zeros((N, n_prop))
            for j in range(n_prop - 1):
                ref[:, j + 1] = prop.flow.log_prob_ith(xp, j) + log_j
            self.bump("C03.density_cells_reevaluated", N * n_prop)
            # ---- the public accessor of "proposal j's density": a function handed out while proposal j was the newest must still be proposal j's density
            # after later proposals were added (held on the monitor, never on the sampler; a restored sampler has a new proposal object)
            held = getattr(self, "_held_density_fns", None)
            if held is None or held[0] is not prop:
                held = self._held_density_fns = (prop, {})
            sub = np.linspace(0, N - 1, min(N, 64)).astype(int)
            for j, fn in list(held[1].items()):
                if j < n_prop - 2:   # at least one proposal was added since the function was handed out
                    with np.errstate(invalid="ignore"):
                        v = np.asarray(fn(xp[sub])) + log_j[sub]
                        r = ref[sub, j + 1]
                        ok = (np.abs(v - r) <= F32_TOL * (1 + np.abs(r))) | (np.isneginf(v) & np.isneginf(r)) | band[sub]
                    self.bump("C03.held_density_function_cells", len(sub))
                    if not np.all(ok):
                        i0 = int(np.flatnonzero(~ok)[0])
                        P("density-function-handed-out-for-a-proposal-changed-after-later-proposals-were-added",
                          dict(proposal=j, newest=n_prop - 2, held_function=float(v[i0]), proposal_density=float(r[i0])))
            newest = n_prop - 2
            if newest >= 0 and newest not in held[1]:
                held[1][newest] = prop.get_proposal_log_prob(newest)
            with np.errstate(invalid="ignore"):
                both_ninf = np.isneginf(lq) & np.isneginf(ref)
                diff = np.abs(lq - ref)
                tol = F32_TOL * (1 + np.abs(ref))
                bad = ~((diff <= tol) | both_ninf)
            if np.any(lq[:, 0] != 0):
                P("prior-column-not-zero", "")
            rel = np.where(both_ninf, 0.0, diff / (1 + np.abs(ref)))
            ok_rows = ~band
            if ok_rows.any() and np.isfinite(rel[ok_rows]).any():
                self.max_rel = max(self.max_rel, float(np.nanmax(rel[ok_rows])))
            if np.any(bad):
                rows = np.flatnonzero(bad.any(axis=1))
                in_band = band[rows]
                if np.all(in_band):
                    self.problem("C03", "eps-clamp-band:stored-density-differs-from-reevaluation",
                                 f"{where} it={ns.iteration} {set_name}: {len(rows)} samples with a coordinate within eps of a face; max |diff| {float(np.nanmax(diff[rows])):.3g}")
                else:
                    r0 = rows[~in_band][0]
                    c0 = int(np.flatnonzero(bad[r0])[0])
                    P("stored-density-differs-from-reevaluated-proposal", dict(row=int(r0), column=c0, stored=float(lq[r0, c0]), reevaluated=float(ref[r0, c0]), it=int(its[r0]), n_bad_rows=int((~in_band).sum())))
            # ---- mixture, weight, prior, likelihood
            with np.errstate(divide="ignore"):
                logQ_ref = logsumexp(lq, b=w_data[None, :], axis=1)
            # after a resume without saved tables the densities are re-derived (float32 accuracy, as the property allows) while logQ is the stored one
            if where == "after-resume" and not store.save_log_q:
                self.rederived.add(set_name)
            elif where == "iteration-end":
                self.rederived.discard(set_name)  # logQ of every stored sample was recomputed from the table in this iteration
            rederived = set_name in self.rederived
            if not np.allclose(s["logQ"], logQ_ref, rtol=F32_TOL if rederived else 1e-9, atol=F32_TOL if rederived else 1e-9):
                i0 = int(np.nanargmax(np.abs(s["logQ"] - logQ_ref)))
                P("logQ-is-not-the-mixture-of-the-stored-densities", dict(row=i0, stored=float(s["logQ"][i0]), mixture=float(logQ_ref[i0])))
            if not np.array_equal(s["logW"], s["logU"] - s["logQ"]):
                P("logW-differs-from-logU-minus-logQ", float(np.nanmax(np.abs(s["logW"] - (s["logU"] - s["logQ"])))))
            logU = self.model.log_prior_unit_hypercube(s)
            if not np.array_equal(s["logU"], logU):
                P("logU-differs-from-model", "")
            phys = self.model.from_unit_hypercube(s)
            ll = self.model.raw_log_likelihood(phys)
            if not np.all(ulp_close_arr(s["logL"], ll)):
                i0 = int(np.nanargmax(np.abs(s["logL"] - ll)))
                P("stored-logL-differs-from-model", dict(row=i0, stored=float(s["logL"][i0]), model=float(ll[i0])))

    def check_finalise(self, ns, live_before):
        self.bump("C15.finalise_checked")
        for nm, (nl, nn) in live_before.items():
            st = getattr(ns, nm)
            if st.live_points_indices is not None:
                self.problem("C15", "ins:live-points-left-after-finalise", nm)
            if len(st.nested_samples_indices) != nl + nn or not np.array_equal(st.nested_samples_indices, np.arange(len(st.samples))):
                self.problem("C15", "ins:live-points-not-consumed-exactly-once", (nm, nl, nn, len(st.nested_samples_indices)))
        if self.finalise_calls > 1:
            self.problem("C15", "ins:finalise-repeated", self.finalise_calls)
        self.check_samples(ns, where="after-finalise")

    # ------------------------------------------------------------------ C15
    def _reached(self, ns, crit):
        """Stopping decision recomputed from the *user's* configuration (criterion names paired with the tolerances in the order the user gave them, any/all as
        the user asked), using the criterion values the sampler reports by name; falls back to the sampler's own lists when the user configuration is unknown."""
        uc = getattr(self, "user_criteria", None)
        if uc:
            vals = []
            for name, tol in uc["pairs"]:
                canon = next((k for k, al in ns.stopping_criterion_aliases.items() if name in al), None)
                if canon is None:
                    return self._reached_own(ns, crit)
                # value compared at this point = the entry of the sampler's criterion vector for that criterion (inf before the first iteration)
                v = crit[ns.stopping_criterion.index(canon)] if canon in ns.stopping_criterion else getattr(ns, canon, np.inf)
                vals.append((v, tol))
            flags = [v <= t for v, t in vals]
            return any(flags) if uc["any"] else all(flags)
        return self._reached_own(ns, crit)

    def _reached_own(self, ns, crit):
        flags = [c <= t for c, t in zip(crit, ns.tolerance)]
        return any(flags) if ns._stop_any else all(flags)

    def check_entry_guard(self, ns):
        self.loop_entries += 1
        self.bump("C15.guard_checks")
        reached = self._reached(ns, ns.criterion)
        if reached and ns.iteration >= ns.min_iteration:
            self.problem("C15", "ins:continued-although-criteria-met", dict(it=ns.iteration, criterion=[float(c) for c in ns.criterion], tol=ns.tolerance, min_iteration=ns.min_iteration))
        if ns.iteration >= ns.max_iteration:
            self.problem("C15", "ins:continued-beyond-iteration-cap", (ns.iteration, ns.max_iteration))

    def check_exit_guard(self, ns):
        if ns.finalised:
            return
        self.bump("C15.exit_checks")
        reached = self._reached(ns, ns.criterion) and ns.iteration >= ns.min_iteration
        if not (reached or ns.iteration >= ns.max_iteration):
            self.problem("C15", "ins:stopped-early", dict(it=ns.iteration, criterion=[float(c) for c in ns.criterion], tol=ns.tolerance, min_iteration=ns.min_iteration, max_iteration=ns.max_iteration))

    def check_criteria(self, ns, reported):
        """Standard definitions recomputed from the stored samples in longdouble."""
        self.bump("C15.criteria_checks")
        store = ns._ordered_samples
        s = store.samples
        lw = (s["logL"] + s["logW"]).astype(np.longdouble)
        n = len(s)
        m = lw.max()
        Z = np.exp(lw - m)
        Zhat = Z.sum() / n
        logZ = float(m + np.log(Zhat))
        # Kish ESS of the posterior weights
        p = Z / Z.sum()
        ess = float(1.0 / np.sum(p * p))
        se = np.sqrt(np.sum((Z - Zhat) ** 2) / (n * (n - 1)))
        frac = float(se / Zhat)
        defs = dict(ess=ess, fractional_error=frac, Z_err=float(np.exp(np.longdouble(frac))))
        if ns.iteration > 0 and ns.history["logZ"]:
            defs["log_dZ"] = abs(logZ - ns.history["logZ"][-1])
        for k, v in defs.items():
            got = float(getattr(ns, k))
            tol = 1e-7 * max(1.0, abs(v)) if k != "ess" else 1e-6 * v
            if not abs(got - v) <= tol:
                self.problem("C15", f"ins:criterion-{k}-differs-from-standard-definition", dict(it=ns.iteration, reported=got, recomputed=v))
        vals = [float(getattr(ns, sc)) for sc in ns.stopping_criterion]
        if [float(r) for r in reported] != vals:
            self.problem("C15", "ins:criterion-vector-not-the-configured-criteria", (reported, vals))
        self._last_criteria = {k: getattr(ns, k, np.nan) for k in ns.stopping_criterion_aliases.keys()}

    def check_history_row(self, ns):
        self.bump("C15.history_rows_checked")
        h = ns.history["stopping_criteria"]
        last = getattr(self, "_last_criteria", None)
        if last is None:
            return
        for k, v in last.items():
            hv = h[k][-1]
            if not (hv == v or (np.isnan(hv) and np.isnan(v))):
                self.problem("C15", "ins:history-differs-from-compared-value", (k, hv, v))

    # ------------------------------------------------------------------ C17 in situ
    def check_threshold(self, ns, samples, thr):
        self.bump("C17.insitu_threshold_checks")
        L = samples["logL"]
        if thr not in L:
            self.problem("C17", "insitu:threshold-not-a-live-likelihood", float(thr))
            return
        kept = int(np.sum(L >= thr))
        n = int(np.argmax(L >= thr))
        size = len(L)
        # with constant draws and a cap smaller than min_samples + nlive the two clamps contradict each other; nessai applies the cap last (the floor of the
        # *training set* is a separate clause, checked in check_training_set)
        infeasible = bool(ns.draw_constant and ns.max_samples and ns.max_samples < ns.min_samples + ns.nlive)
        if not infeasible and kept < min(size, ns.min_samples) and size - n < min(size, ns.min_samples):
            self.problem("C17", "insitu:fewer-than-min_samples-kept", dict(kept=size - n, size=size, min_samples=ns.min_samples))
        if ns.draw_constant and ns.max_samples and (size - n) + ns.nlive > ns.max_samples and ns.max_samples >= ns.min_samples + ns.nlive:
            self.problem("C17", "insitu:next-level-exceeds-max_samples", dict(kept=size - n, nlive=ns.nlive, max_samples=ns.max_samples))

    def check_training_set(self, prop, samples):
        self.bump("C17.insitu_training_set_checks")
        ms = getattr(self, "min_samples", None)
        if ms is not None and len(samples) < ms:
            self.problem("C17", "insitu:proposal-trained-on-fewer-than-min_samples", (len(samples), ms))
