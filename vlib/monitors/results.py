"""C05 post-run oracles: the returned numbers must belong together and be faithful to the model."""
import numpy as np

from .standard import ulp_close_arr, row_bytes


def _rows_subset(sub, sup, names):
    a = np.ascontiguousarray(np.stack([sup[n] for n in names], axis=1))
    b = np.ascontiguousarray(np.stack([sub[n] for n in names], axis=1))
    va = set(map(bytes, a.view(np.uint8).reshape(len(a), -1)))
    return all(bytes(r) in va for r in b.view(np.uint8).reshape(len(b), -1))


def check_standard_result(fs, model, mon):
    from vlib.oracles.quadrature import reference, info_recurrence

    P = lambda key, d: mon.problem("C05", key, d)
    ns = fs.ns
    a = fs.nested_samples
    out = dict(n=len(a))
    mon.bump("C05.result_checked")
    nlive, it = ns.nlive, ns.iteration
    exp_n = it + nlive if ns.finalised else it
    if len(a) != exp_n:
        P("sample-count", dict(n=len(a), iterations=it, nlive=nlive, finalised=ns.finalised))
    if np.any(np.diff(a["logL"]) < 0):
        P("likelihoods-not-ascending", int(np.argmax(np.diff(a["logL"]) < 0)))
    if not np.all(ulp_close_arr(a["logL"], model.raw_log_likelihood(a))):
        P("stored-logL-differs-from-model", float(np.nanmax(np.abs(a["logL"] - model.raw_log_likelihood(a)))))
    if not np.all(ulp_close_arr(a["logP"], model.raw_log_prior(a))):
        P("stored-logP-differs-from-model", float(np.nanmax(np.abs(a["logP"] - model.raw_log_prior(a)))))
    # --- estimator recomputed from the returned samples alone
    if ns.finalised:
        sched = [float(nlive)] * it + [float(k) for k in range(nlive, 0, -1)]
    else:
        sched = [float(nlive)] * it
    if len(sched) == len(a) and len(a):
        ref = reference([float(v) for v in a["logL"]], sched, ns.state.expectation)
        z_ref = float(ref["logZ_trap"] if ns.finalised else ref["logZ_rect"][-1])
        tol = 1e-9 * max(1.0, abs(z_ref))
        if not abs(fs.logZ - z_ref) <= tol:
            P("logZ-differs-from-recomputation", dict(reported=float(fs.logZ), recomputed=z_ref, finalised=ns.finalised))
        w_ref = np.array([float(v) for v in ref["log_post_w"]])
        w = ns.state.log_posterior_weights
        if len(w) != len(a) or not np.all((np.abs(w - w_ref) <= 1e-9 * np.maximum(1.0, np.abs(w_ref))) | (np.isinf(w) & np.isinf(w_ref))):
            P("weights-differ-from-recomputation", float(np.nanmax(np.abs(w - w_ref))) if len(w) == len(a) else (len(w), len(a)))
        H = float(info_recurrence([float(v) for v in a["logL"]], sched, ns.state.expectation))
        err_ref = np.sqrt(H / nlive) if H >= 0 else np.nan
        if not (abs(fs.logZ_error - err_ref) <= 1e-8 * max(1.0, abs(err_ref))):
            P("logZ-error-differs-from-recomputation", dict(reported=float(fs.logZ_error), recomputed=float(err_ref)))
        out.update(logZ_ref=z_ref, err_ref=float(err_ref))
        mon.bump("C05.estimator_recomputed")
    if not (fs.logZ == ns.state.logZ == ns.log_evidence):
        P("logZ-attributes-disagree", (float(fs.logZ), float(ns.state.logZ)))
    if not (fs.logZ_error == ns.state.log_evidence_error):
        P("logZ-error-attributes-disagree", (float(fs.logZ_error), float(ns.state.log_evidence_error)))
    birth = ns.birth_log_likelihoods
    if len(birth) != len(a) or not np.all(birth < a["logL"]):
        bad = np.flatnonzero(~(birth < a["logL"]))[:3] if len(birth) == len(a) else []
        P("birth-likelihood-not-below-sample", dict(rows=[int(b) for b in bad], birth=[float(birth[b]) for b in bad], logL=[float(a["logL"][b]) for b in bad]))
    # --- result dictionary vs object
    d = ns.get_result_dictionary()
    if not (d["log_evidence"] == fs.logZ and d["log_evidence_error"] == fs.logZ_error):
        P("dictionary-evidence-differs", (d["log_evidence"], fs.logZ))
    if row_bytes(d["nested_samples"]) != row_bytes(a):
        P("dictionary-nested-samples-differ", len(d["nested_samples"]))
    if not np.array_equal(np.asarray(d["log_posterior_weights"]), ns.state.log_posterior_weights, equal_nan=True):
        P("dictionary-weights-differ", "")
    if list(d["insertion_indices"]) != list(ns.insertion_indices):
        P("dictionary-insertion-indices-differ", "")
    if not np.array_equal(np.asarray(d["logL_birth"]), birth, equal_nan=True):
        P("dictionary-logL_birth-differs", "")
    if d["total_likelihood_evaluations"] != model.likelihood_evaluations:
        P("dictionary-evaluation-count-differs", (d["total_likelihood_evaluations"], model.likelihood_evaluations))
    # --- accessor purity: reading the public summary properties must not change what is returned afterwards
    w_first = np.array(ns.state.log_posterior_weights, copy=True)
    z_first = (float(ns.log_evidence), float(ns.state.log_evidence_error))
    try:
        _ = (ns.posterior_effective_sample_size, ns.information, ns.log_evidence_error, ns.birth_log_likelihoods, ns.state.effective_n_posterior_samples)
    except Exception as e:
        P("summary-property-raises", f"{type(e).__name__}: {e}"[:150])
    mon.bump("C05.accessor_purity_checked")
    d2 = ns.get_result_dictionary()
    if not (np.array_equal(np.asarray(ns.state.log_posterior_weights), w_first, equal_nan=True) and np.array_equal(np.asarray(d2["log_posterior_weights"]), w_first, equal_nan=True)):
        P("weights-change-after-reading-summary-properties", float(np.nanmax(np.abs(np.asarray(ns.state.log_posterior_weights) - w_first))))
    if (float(ns.log_evidence), float(ns.state.log_evidence_error)) != z_first or d2["log_evidence"] != d["log_evidence"]:
        P("evidence-changes-after-reading-summary-properties", "")
    ps = getattr(fs, "posterior_samples", None)
    if ps is not None and len(ps):
        if not _rows_subset(ps, a, list(model.names) + ["logL"]):
            P("posterior-samples-not-a-subset-of-nested-samples", len(ps))
        out["n_posterior"] = len(ps)
    return out


def check_ins_result(fs, model, mon):
    from scipy.special import logsumexp

    P = lambda key, d: mon.problem("C05", "ins:" + key, d)
    ns = fs.ns
    mon.bump("C05.result_checked")
    s = ns.samples_unit
    out = dict(n=len(s))
    final = getattr(fs, "_final_samples", None) is not None
    if np.any(np.diff(s["logL"]) < 0):
        P("likelihoods-not-ascending", "")
    # evidence = mean importance weight, from the returned samples alone
    lw = (s["logL"] + s["logW"]).astype(np.longdouble)
    z_ref = float(logsumexp(s["logL"] + s["logW"]) - np.log(len(s)))
    if not final:
        if not abs(fs.logZ - z_ref) <= 1e-10 * max(1.0, abs(z_ref)):
            P("logZ-differs-from-recomputation", (float(fs.logZ), z_ref))
        Z = np.exp(lw - np.longdouble(z_ref))  # in units of Z_hat
        n = len(s)
        err_ref = float(np.abs(np.sqrt(np.sum((Z - 1) ** 2) / (n * (n - 1)))))
        if not abs(fs.logZ_error - err_ref) <= 1e-7 * max(1e-300, abs(err_ref)) + 1e-12:
            P("logZ-error-differs-from-recomputation", (float(fs.logZ_error), err_ref))
        w = ns.log_posterior_weights
        w_ref = s["logL"] + s["logW"] - z_ref
        with np.errstate(invalid="ignore"):
            okw = (np.abs(w - w_ref) <= 1e-9 * np.maximum(1.0, np.abs(w_ref))) | (np.isneginf(w) & np.isneginf(w_ref))
        if len(w) != n or not np.all(okw):
            P("weights-differ-from-recomputation", int(np.sum(~okw)) if len(w) == n else (len(w), n))
        mon.bump("C05.estimator_recomputed")
    # sample count = sum of the draws of every level
    h = ns.history
    n_added = sum(h["n_added"]) if h and "n_added" in h else None
    out["n_added"] = n_added
    phys = ns.samples
    ll = model.raw_log_likelihood(phys)
    if not np.all(ulp_close_arr(phys["logL"], ll)):
        P("stored-logL-differs-from-model", float(np.nanmax(np.abs(phys["logL"] - ll))))
    back = model.from_unit_hypercube(s)
    for nm in model.names:
        if not np.all(ulp_close_arr(back[nm], phys[nm], 16)):
            P("physical-samples-differ-from-mapped-unit-samples", nm)
            break
    try:
        d = ns.get_result_dictionary()
    except Exception as e:
        import traceback

        fn = [l.split(", in ")[-1].strip() for l in traceback.format_exc().splitlines() if l.strip().startswith("File ") and "/nessai/" in l][-1:]
        P(f"result-dictionary-raises:{type(e).__name__}@{fn[0] if fn else '?'}", str(e)[:200])
        return out
    if not (d["log_evidence"] == ns.log_evidence and d["log_evidence_error"] == ns.log_evidence_error):
        P("dictionary-evidence-differs", "")
    if "samples" in d and row_bytes(np.asarray(d["samples"])) != row_bytes(ns.samples):
        P("dictionary-samples-differ", "")
    if "log_posterior_weights" in d and not np.array_equal(np.asarray(d["log_posterior_weights"]), ns.log_posterior_weights, equal_nan=True):
        P("dictionary-weights-differ", "")
    # --- accessor purity
    w_first = np.array(ns.log_posterior_weights, copy=True)
    z_first = (float(ns.log_evidence), float(ns.log_evidence_error))
    try:
        _ = (ns.posterior_effective_sample_size, ns.samples_entropy, ns.state.effective_n_posterior_samples, ns.final_log_evidence, ns.final_log_evidence_error)
    except Exception as e:
        P("summary-property-raises", f"{type(e).__name__}: {e}"[:150])
    mon.bump("C05.accessor_purity_checked")
    if not np.array_equal(np.asarray(ns.log_posterior_weights), w_first, equal_nan=True):
        P("weights-change-after-reading-summary-properties", "")
    if (float(ns.log_evidence), float(ns.log_evidence_error)) != z_first:
        P("evidence-changes-after-reading-summary-properties", "")
    return out
