"""Monitors for the standard nested sampler and its proposals, attached by re-binding class attributes.

Families (each problem is tagged with the property it refutes):
  C01  live-set replacement monitor on consume_sample / populate_live_points / finalise + end-of-run trace check
  C09  post-populate monitor, at-most-once draw monitor, latent-contour monitor (all proposal classes)
  C15  stopping-rule trace (condition recomputed from the pre-state snapshot)
Counters record how many times each deciding monitor actually evaluated.
"""
import numpy as np

CUR = {"sampler": None}


def ulp_close(a, b, n=8):
    a, b = float(a), float(b)
    if a == b:
        return True
    if not (np.isfinite(a) and np.isfinite(b)):
        return False
    return abs(a - b) <= n * np.spacing(max(abs(a), abs(b)))


def ulp_close_arr(a, b, n=8):
    a, b = np.asarray(a, float), np.asarray(b, float)
    same = (a == b) | (np.isnan(a) & np.isnan(b))
    with np.errstate(invalid="ignore"):
        close = np.abs(a - b) <= n * np.spacing(np.maximum(np.abs(a), np.abs(b)))
    return same | (np.isfinite(a) & np.isfinite(b) & close)


def row_bytes(a):
    return np.ascontiguousarray(a).tobytes()


class StandardMonitors:
    def __init__(self, model, stop_at_iteration=None, max_problems=12):
        self.model = model
        self.problems = []          # (property, key, detail)
        self.counts = {}
        self.max_problems = max_problems
        self.trace = []             # C15: (iteration, condition, recomputed)
        self.stop_at_iteration = stop_at_iteration
        self.stop_after_mid_iteration_training = None   # n: die right after the n-th training that is triggered while a replacement point is being drawn
        self._patched = []
        self.handed_out = set()
        self.pool_sizes = []
        self.nested_seen = 0
        self.continuous = True
        self.finalise_calls = 0
        self.max_contour_excess = 0.0
        self.abort_after = 6
        self.abort_props = None
        self.abort_pending = False
        self.iteration_budget = 60   # in units of nlive; nominal runs of the zoo models need < 10

    # ------------------------------------------------------------------ utilities
    def bump(self, k, n=1):
        self.counts[k] = self.counts.get(k, 0) + n

    def problem(self, prop, key, detail):
        if sum(1 for q in self.problems if q[0] == prop) < self.max_problems:  # cap per property, so one property cannot crowd out another
            self.problems.append((prop, key, str(detail)[:400]))
        # only witnesses of the properties the running check decides may cut the run short
        self.abort_pending = sum(1 for q in self.problems if self.abort_props is None or q[0] in self.abort_props) >= self.abort_after

    def maybe_abort(self, ns=None):
        """Called at iteration boundaries: stop a run that already has its witnesses, or that exceeds its logical budget."""
        if self.abort_pending:
            raise AbortRun(f"{len(self.problems)} problems recorded")
        if ns is not None and ns.iteration > self.iteration_budget * ns.nlive:
            raise BudgetExceeded(f"iterations {ns.iteration} > {self.iteration_budget} x nlive")

    def _patch(self, cls, name, wrapper_factory):
        orig = cls.__dict__.get(name)
        if orig is None:
            return
        setattr(cls, name, wrapper_factory(orig))
        self._patched.append((cls, name, orig))

    def disarm(self):
        for cls, name, orig in reversed(self._patched):
            setattr(cls, name, orig)
        self._patched = []
        CUR["sampler"] = None

    # ------------------------------------------------------------------ arming
    def arm(self):
        from nessai.samplers.nestedsampler import NestedSampler
        from nessai.proposal.flowproposal import FlowProposal
        from nessai.proposal.analytic import AnalyticProposal
        from nessai.proposal.rejection import RejectionProposal
        from nessai.proposal.augmented import AugmentedFlowProposal

        mon = self

        def consume_factory(orig):
            def consume_sample(ns):
                CUR["sampler"] = ns
                old_live = ns.live_points.copy()
                n0, it0 = len(ns.nested_samples), ns.iteration
                s0, i0 = len(ns.state.logLs), len(ns.insertion_indices)
                logLmax0 = ns.logLmax
                r = orig(ns)
                mon.check_replacement(ns, old_live, n0, it0, s0, i0, logLmax0)
                mon.maybe_abort(ns)
                if mon.stop_at_iteration is not None and ns.iteration >= mon.stop_at_iteration:
                    mon.stop_at_iteration = None
                    raise StopRun(ns.iteration)
                return r
            return consume_sample

        def populate_live_factory(orig):
            def populate_live_points(ns):
                CUR["sampler"] = ns
                r = orig(ns)
                mon.check_initial_live(ns)
                return r
            return populate_live_points

        def finalise_factory(orig):
            def finalise(ns):
                pre = ns.live_points.copy() if ns.live_points is not None else None
                n0 = len(ns.nested_samples)
                r = orig(ns)
                mon.check_finalise(ns, pre, n0)
                return r
            return finalise

        def train_factory(orig):
            def train_proposal(ns, *a, **k):
                mid = ns.live_points is not None and len(ns.nested_samples) != len(ns.insertion_indices)
                n_before = getattr(getattr(ns, "proposal", None), "training_count", None)
                r = orig(ns, *a, **k)
                trained = getattr(getattr(ns, "proposal", None), "training_count", None) != n_before
                if mid and trained:
                    mon.bump("trainings_while_a_replacement_is_being_drawn")
                    if mon.stop_after_mid_iteration_training is not None:
                        mon.stop_after_mid_iteration_training -= 1
                        if mon.stop_after_mid_iteration_training <= 0:
                            mon.stop_after_mid_iteration_training = None
                            # the process "dies" here: after the training (and whatever checkpoint it wrote) and before the replacement point is inserted
                            raise StopRun(ns.iteration)
                return r
            return train_proposal

        self._patch(NestedSampler, "train_proposal", train_factory)
        self._patch(NestedSampler, "consume_sample", consume_factory)
        self._patch(NestedSampler, "populate_live_points", populate_live_factory)
        self._patch(NestedSampler, "finalise", finalise_factory)

        def populate_factory(orig, kind):
            def populate(prop, *a, **k):
                r = orig(prop, *a, **k)
                mon.check_pool(prop, kind, a, k)
                return r
            return populate

        def draw_factory(orig, kind):
            def draw(prop, *a, **k):
                idx_before = list(prop.indices[-1:]) if prop.populated and prop.indices else None
                r = orig(prop, *a, **k)
                mon.check_draw(prop, kind, r, idx_before)
                return r
            return draw

        for cls, kind in ((FlowProposal, "flow"), (AnalyticProposal, "analytic"), (RejectionProposal, "rejection")):
            self._patch(cls, "populate", lambda o, kind=kind: populate_factory(o, kind))
            self._patch(cls, "draw", lambda o, kind=kind: draw_factory(o, kind))

        def latent_factory(orig):
            def draw_latent_prior(prop, n):
                z = orig(prop, n)
                mon.check_latent(prop, z)
                return z
            return draw_latent_prior

        self._patch(FlowProposal, "draw_latent_prior", latent_factory)

        # the prior that enters the rejection weights of an augmented proposal: model prior (+ auxiliary priors of the reparameterisations, taken from nessai) plus
        # one independent standard normal per augment parameter unless they are marginalised
        def aug_prior_factory(orig, base_name):
            def prior(prop, x):
                r = orig(prop, x)
                try:
                    from scipy import stats as _st

                    base = getattr(FlowProposal, base_name)(prop, x)
                    extra = 0.0
                    if not prop.marginalise_augment:
                        for nm in prop.augment_parameters:
                            extra = extra + _st.norm.logpdf(np.asarray(x[nm], dtype=float))
                    ref = np.asarray(base + extra, dtype=float)
                    got = np.asarray(r, dtype=float) + np.zeros_like(ref)
                    mon.bump("C09.augmented_prior_checks")
                    bad = ~((np.abs(got - ref) <= 1e-9 * (1 + np.abs(ref))) | (np.isneginf(got) & np.isneginf(ref)))
                    if np.any(bad):
                        j = int(np.flatnonzero(bad)[0])
                        mon.problem("C09", f"augmented:{base_name}-differs-from-prior-plus-normal-prior-of-every-augment-parameter",
                                    dict(augment_dims=int(prop.augment_dims), returned=float(got[j]), reference=float(ref[j]), points=int(bad.sum())))
                except Exception:
                    mon.bump("C09.augmented_prior_check_errors")
                return r
            return prior

        self._patch(AugmentedFlowProposal, "log_prior", lambda o: aug_prior_factory(o, "log_prior"))
        self._patch(AugmentedFlowProposal, "x_prime_log_prior", lambda o: aug_prior_factory(o, "x_prime_log_prior"))
        return self

    # ------------------------------------------------------------------ C01
    def check_replacement(self, ns, old_live, n0, it0, s0, i0, logLmax0):
        self.bump("C01.consume_sample")
        P = lambda key, d: self.problem("C01", key, f"iteration {ns.iteration}: {d}")
        live = ns.live_points
        nlive = ns.nlive
        if ns.iteration != it0 + 1:
            P("iteration-step", (it0, ns.iteration))
        if len(live) != nlive:
            P("live-size", len(live))
            return
        if len(ns.nested_samples) != n0 + 1:
            P("nested-count", (n0, len(ns.nested_samples)))
        elif row_bytes(ns.nested_samples[-1]) != row_bytes(old_live[0]):
            P("removed-not-minimum", (ns.nested_samples[-1], old_live[0]))
        if not (ns.logLmin == old_live[0]["logL"]):
            P("logLmin", (ns.logLmin, old_live[0]["logL"]))
        if len(ns.insertion_indices) != i0 + 1:
            P("insertion-index-count", (i0, len(ns.insertion_indices)))
            return
        idx = ns.insertion_indices[-1]
        if not (0 <= idx < nlive):
            P("insertion-index-range", idx)
            return
        if row_bytes(np.delete(live, idx)) != row_bytes(old_live[1:]):
            # find what changed
            rest = np.delete(live, idx)
            bad = [j for j in range(nlive - 1) if row_bytes(rest[j]) != row_bytes(old_live[1 + j])][:3]
            P("other-live-point-changed-or-index-wrong", dict(idx=int(idx), first_bad_rows=bad))
        new = live[idx]
        if new["it"] != ns.iteration:
            P("new-point-it", (int(new["it"]), ns.iteration))
        if not (new["logL"] > old_live[0]["logL"]):
            P("new-not-strictly-above-removed", (float(new["logL"]), float(old_live[0]["logL"])))
        if not np.isfinite(new["logP"]):
            P("new-logP-not-finite", float(new["logP"]))
        if not bool(self.model.ref_in_bounds(new)):
            P("new-out-of-bounds", new)
        if not ulp_close(new["logL"], self.model.raw_log_likelihood(new)):
            P("new-logL-differs-from-model", (float(new["logL"]), float(self.model.raw_log_likelihood(new))))
        if not ulp_close(new["logP"], self.model.raw_log_prior(new)):
            P("new-logP-differs-from-model", (float(new["logP"]), float(self.model.raw_log_prior(new))))
        if np.any(np.diff(live["logL"]) < 0):
            P("live-not-ascending", int(np.argmax(np.diff(live["logL"]) < 0)))
        if not (len(ns.state.logLs) == s0 + 1 == 1 + len(ns.nested_samples)):
            P("integral-state-length", (s0, len(ns.state.logLs), len(ns.nested_samples)))
        if len(ns.nested_samples) >= 2 and ns.nested_samples[-1]["logL"] < ns.nested_samples[-2]["logL"]:
            P("discarded-likelihood-decreased", (float(ns.nested_samples[-2]["logL"]), float(ns.nested_samples[-1]["logL"])))
        if len(ns.nested_samples) >= 2 and ns.nested_samples[-1]["logL"] == ns.nested_samples[-2]["logL"]:
            self.bump("C01.tied_discards")
        # ---- C15 trace: condition recomputed from the pre-state snapshot of logLmax
        ref = np.logaddexp(ns.state.logZ, logLmax0 - it0 / float(nlive)) - ns.state.logZ
        self.trace.append((ns.iteration, float(ns.condition), float(ref)))
        self.bump("C15.condition_trace")

    def check_initial_live(self, ns):
        self.bump("C01.populate_live_points")
        P = lambda key, d: self.problem("C01", "initial:" + key, d)
        live = ns.live_points
        if len(ns.nested_samples) or ns.iteration:
            # an initial live set is only ever drawn before anything has been discarded (a resumed sampler continues with the pickled live set)
            P("drawn-after-points-were-discarded", dict(nested_samples=len(ns.nested_samples), iteration=int(ns.iteration)))
        if live is None or len(live) != ns.nlive:
            P("size", None if live is None else len(live))
            return
        if np.any(np.diff(live["logL"]) < 0):
            P("not-ascending", "")
        if not (np.all(np.isfinite(live["logL"])) and np.all(np.isfinite(live["logP"]))):
            P("non-finite", "")
        if not np.all(self.model.ref_in_bounds(live)):
            P("out-of-bounds", "")
        if not np.all(live["it"] == 0):
            P("it-not-zero", "")
        if not np.all(ulp_close_arr(live["logL"], self.model.raw_log_likelihood(live))):
            P("logL-differs-from-model", "")
        if not np.all(ulp_close_arr(live["logP"], self.model.raw_log_prior(live))):
            P("logP-differs-from-model", "")

    def check_finalise(self, ns, pre, n0):
        self.bump("C01.finalise")
        self.finalise_calls += 1
        P = lambda key, d: self.problem("C01", "finalise:" + key, d)
        if pre is None:
            return
        nlive = len(pre)
        if ns.live_points is not None:
            P("live-points-not-cleared", "")
        if len(ns.nested_samples) != n0 + nlive:
            P("count", (n0, nlive, len(ns.nested_samples)))
            return
        tail = np.array(ns.nested_samples[-nlive:])
        if row_bytes(tail) != row_bytes(pre):
            P("live-points-not-appended-in-order-exactly-once", "")
        if list(ns.state.nlive[-nlive:]) != list(range(nlive, 0, -1)):
            P("closing-schedule", list(ns.state.nlive[-nlive:])[:5])
        if self.finalise_calls > 1:
            self.problem("C15", "finalise-repeated", self.finalise_calls)

    def end_of_run(self, ns):
        """Trace-level C01 check on the finished (or capped) run."""
        self.bump("C01.end_of_run")
        nested = np.array(ns.nested_samples)
        if len(nested) == 0:
            return
        if np.any(np.diff(nested["logL"]) < 0):
            self.problem("C01", "trace:discarded-likelihoods-decrease", int(np.argmax(np.diff(nested["logL"]) < 0)))
        if len(ns.insertion_indices) != ns.iteration:
            self.problem("C01", "trace:insertion-indices-vs-iteration", (len(ns.insertion_indices), ns.iteration))
        if self.continuous:
            names = list(self.model.names)
            pts = np.ascontiguousarray(np.stack([nested[n] for n in names], axis=1))
            uniq = np.unique(pts.view([("", pts.dtype)] * pts.shape[1]))
            if len(uniq) != len(pts):
                self.problem("C01", "trace:point-recorded-twice", len(pts) - len(uniq))

    # ------------------------------------------------------------------ C09
    def check_pool(self, prop, kind, args, kwargs):
        self.bump("C09.populate")
        P = lambda key, d: self.problem("C09", f"pool[{type(prop).__name__}]:{key}", d)
        s = prop.samples
        N = kwargs.get("N", None)
        if N is None:
            if kind == "flow":
                N = args[1] if len(args) > 1 else 10000
            else:
                N = args[0] if args else prop.poolsize
        self.pool_sizes.append(len(s))
        if kind == "flow":
            if len(s) != N and not getattr(prop, "accumulate_weights", False):
                P("size", (len(s), N))
            if len(s) > N:
                P("size-exceeds-request", (len(s), N))
            if len(s) < N:
                self.bump("C09.short_pool_accumulate_weights")
        elif kind == "rejection" and len(s) > N:
            P("size-exceeds-request", (len(s), N))
        elif kind == "analytic" and len(s) != N:
            P("size", (len(s), N))
        if len(s) == 0:
            return
        if not np.all(self.model.ref_in_bounds(s)):
            P("out-of-bounds", int(np.sum(~self.model.ref_in_bounds(s))))
        rp = self.model.raw_log_prior(s)
        if not np.all(np.isfinite(s["logP"])):
            P("non-finite-logP", int(np.sum(~np.isfinite(s["logP"]))))
        if not np.all(ulp_close_arr(s["logP"], rp)):
            P("logP-differs-from-model", float(np.nanmax(np.abs(s["logP"] - rp))))
        rl = self.model.raw_log_likelihood(s)
        if not np.all(ulp_close_arr(s["logL"], rl)):
            P("logL-differs-from-model", float(np.nanmax(np.abs(s["logL"] - rl))))
        if sorted(prop.indices) != list(range(len(s))):
            P("indices-not-a-permutation", (len(prop.indices), len(s)))
        if tuple(s.dtype.names[: len(self.model.names)]) != tuple(self.model.names):
            P("field-names", s.dtype.names)
        self.handed_out = set()
        self._pool_id = id(s)
        # radially truncated latent priors: no pool point maps outside the contour (deterministic reparameterisations only)
        if kind == "flow" and getattr(prop, "latent_prior", None) in ("truncated_gaussian", "uniform_nball", "uniform_nsphere") \
                and type(prop).__name__ in ("FlowProposal", "GWFlowProposal") and not prop.use_x_prime_prior and self.deterministic_reparam(prop):
            try:
                z, _ = prop.forward_pass(s.copy(), rescale=True, compute_radius=False)
                rad = np.sqrt(np.sum(z**2, axis=-1))
                lim = prop.r * prop.fuzz
                excess = float(np.max(rad) / lim)
                self.max_contour_excess = max(self.max_contour_excess, excess)
                self.bump("C09.contour_forward_checks")
                if excess > 1 + 2e-3:
                    P("pool-point-outside-latent-contour", (float(np.max(rad)), float(lim)))
            except Exception as e:  # the monitor must never take the run down
                self.bump("C09.contour_forward_errors")

    @staticmethod
    def deterministic_reparam(prop):
        """True when every reparameterisation is a deterministic one-to-one map (no auxiliary radius, no inversion)."""
        r = getattr(prop, "_reparameterisation", None)
        if not r:
            return False
        for rp in r.values():
            if type(rp).__name__ not in ("RescaleToBounds", "Rescale", "ScaleAndShift", "NullReparameterisation"):
                return False
            if getattr(rp, "boundary_inversion", None):
                return False
        return True

    def check_draw(self, prop, kind, ret, idx_before):
        self.bump("C09.draw")
        s = prop.samples
        if getattr(self, "_pool_id", None) != id(s):
            return
        if idx_before is None:
            # populated inside this call: the popped index is whatever is missing from the index list
            gone = set(range(len(s))) - set(prop.indices) - self.handed_out
            if len(gone) != 1:
                self.problem("C09", f"draw[{type(prop).__name__}]:first-draw-after-populate-popped-{len(gone)}-indices", sorted(gone)[:5])
                return
            idx = gone.pop()
        else:
            idx = idx_before[0]
        if row_bytes(ret) != row_bytes(s[idx]):
            self.problem("C09", f"draw[{type(prop).__name__}]:returned-row-is-not-the-popped-pool-row", idx)
        if idx in self.handed_out:
            self.problem("C09", f"draw[{type(prop).__name__}]:pool-point-handed-out-twice", idx)
        self.handed_out.add(idx)
        ns = CUR["sampler"]
        if ns is not None and ret["logL"] == ns.logLmin:
            self.bump("C01.tied_proposals_seen")

    def check_latent(self, prop, z):
        self.bump("C09.latent_draws")
        if prop.latent_prior in ("truncated_gaussian", "uniform_nball", "uniform_nsphere"):
            rad = np.sqrt(np.sum(np.asarray(z, dtype=float) ** 2, axis=-1))
            lim = prop.r * prop.fuzz
            self.bump("C09.latent_contour_checks")
            if np.any(rad > lim * (1 + 1e-12)):
                self.problem("C09", f"latent[{prop.latent_prior}]:draw-outside-radius", (float(rad.max()), float(lim)))

    # ------------------------------------------------------------------ C15
    def check_stopping(self, ns):
        """Offline check of the recorded condition trace against the stopping rule (standard sampler)."""
        tol = ns.tolerance
        tr = self.trace
        if not tr:
            return
        self.bump("C15.trace_checked")
        for it, cond, ref in tr:
            if not (abs(cond - ref) <= 1e-12 * max(1.0, abs(ref)) or (np.isinf(cond) and np.isinf(ref))):
                self.problem("C15", "condition-differs-from-recomputation", (it, cond, ref))
                break
        for it, cond, _ in tr[:-1]:
            if not cond > tol:
                self.problem("C15", "continued-although-condition-met-tolerance", (it, cond, tol))
                break
        it, cond, _ = tr[-1]
        if not (cond <= tol or ns.iteration >= ns.max_iteration):
            self.problem("C15", "stopped-early", (it, cond, tol, ns.iteration, ns.max_iteration))
        if cond <= tol and not ns.finalised:
            self.problem("C15", "not-finalised-after-reaching-tolerance", (it, cond))
        h = ns.history
        if h and len(h.get("iterations", [])):
            d = {i: c for i, c, _ in tr}
            for i, c in zip(h["iterations"], h["dlogZ"]):
                if i in d and not (d[i] == c):
                    self.problem("C15", "history-dlogZ-differs-from-compared-value", (i, c, d[i]))
                    break
            self.bump("C15.history_rows_checked", sum(1 for i in h["iterations"] if i in d))


class AbortRun(Exception):
    """The monitor has enough witnesses; the run is stopped to save time."""


class BudgetExceeded(Exception):
    """A logical step budget far above the nominal cost was exceeded."""


class StopRun(Exception):
    """Raised by the monitor at an iteration boundary to emulate an abrupt stop before a resume."""
