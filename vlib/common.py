"""Shared plumbing of the checks: tiers, seeds, scratch space, verdicts, known findings, evidence."""
import argparse
import atexit
import hashlib
import json
import os
import shutil
import sys
import tempfile
import time

import numpy as np

ROOT = os.path.dirname(os.path.dirname(os.path.abspath(__file__)))
# self-validation runs (scratch copies of the repository) must not overwrite evidence/replays of the unchanged tree
def _selfval_out_root():
    # one directory per check invocation: created by the first process (the check itself), inherited by its workers through the environment, removed when
    # the check process exits
    d = os.environ.get("VERIF_SELFVAL_OUT")
    if d and os.path.isdir(d):
        return d
    d = tempfile.mkdtemp(prefix="nessai-verif-selfval-out-", dir="/tmp")
    os.environ["VERIF_SELFVAL_OUT"] = d
    import atexit
    import shutil

    atexit.register(shutil.rmtree, d, True)
    return d


OUT_ROOT = ROOT if not os.environ.get("VERIF_SELFVAL") else _selfval_out_root()
FINDINGS_FILE = os.path.join(ROOT, "known_findings.jsonl")
EVIDENCE_SCHEMA = "/root/.vp/EVIDENCE.schema.json"


def assert_repo():
    """Refuse to run unless the nessai that is imported is /repo's working tree."""
    import nessai

    repo = os.path.realpath(os.environ.get("VERIF_REPO", "/repo"))
    if not os.path.realpath(nessai.__file__).startswith(repo + "/"):
        raise SystemExit(f"nessai imported from {nessai.__file__}, not {repo}")


class NPEncoder(json.JSONEncoder):
    def default(self, o):
        if isinstance(o, np.integer):
            return int(o)
        if isinstance(o, np.floating):
            return float(o)
        if isinstance(o, np.bool_):
            return bool(o)
        if isinstance(o, np.ndarray):
            if o.dtype.names:
                return {n: o[n].tolist() for n in o.dtype.names}
            return o.tolist()
        if isinstance(o, (set, frozenset, tuple)):
            return list(o)
        if isinstance(o, bytes):
            return o.hex()
        return repr(o)


def jdump(o, **kw):
    return json.dumps(o, cls=NPEncoder, **kw)


def rng_for(*keys):
    """Seeded generator: SeedSequence([VERIF_SEED, keys...]) with strings hashed stably."""
    ints = []
    for k in keys:
        if isinstance(k, str):
            ints.append(int(hashlib.sha256(k.encode()).hexdigest()[:8], 16))
        else:
            ints.append(int(k))
    return np.random.default_rng(np.random.SeedSequence(ints))


def load_findings(pid):
    out = {}
    if os.path.exists(FINDINGS_FILE):
        with open(FINDINGS_FILE) as f:
            for line in f:
                line = line.strip()
                if not line:
                    continue
                d = json.loads(line)
                if d["property"] == pid:
                    out[d["key"]] = d
    return out


class Check:
    """One run of one property check.

    Verdict discipline (DESIGN 1.4): violation(...) records a witness with a mechanism key; keys listed as
    status=known in known_findings.jsonl print KNOWN-FINDING and do not fail the run; anything else prints
    VIOLATION and exits 1.  inconclusive(...) is counted separately; a check whose deciding monitors observed
    nothing (require_observed) or whose inconclusive share exceeds 5 % exits 2.
    """

    def __init__(self, pid, level, description="", argv=None):
        ap = argparse.ArgumentParser(description=description)
        ap.add_argument("--tier", default=os.environ.get("VERIF_TIER", "quick"), choices=["quick", "thorough"])
        ap.add_argument("--replay", default=None)
        ap.add_argument("--nproc", type=int, default=int(os.environ.get("VERIF_NPROC", "16")))
        ap.add_argument("--only", default=None, help="restrict to cases whose name contains this (debugging)")
        ap.add_argument("--keep", action="store_true", help="keep the scratch directory")
        self.args = ap.parse_args(argv)
        self.pid = pid
        self.level = level
        self.tier = self.args.tier
        self.quick = self.tier == "quick"
        self.seed = int(os.environ.get("VERIF_SEED", "0"))
        self.t0 = time.time()
        self.scratch = tempfile.mkdtemp(prefix=f"nessai-verif-{pid}-", dir="/tmp")
        if not self.args.keep:
            atexit.register(shutil.rmtree, self.scratch, ignore_errors=True)
        self.known = load_findings(pid)
        self.violations = []  # (key, what, replay_path)
        self.known_seen = {}
        self.inconclusive = []
        self.counters = {}
        self.evaluations = 0
        self.nontrivial = set()
        self.samples = []
        self.extra = {}
        self.assumptions = []
        self.replay_case = None
        if self.args.replay:
            with open(self.args.replay) as f:
                self.replay_case = json.load(f)

    # ---- counting -------------------------------------------------------------------------------
    def count(self, name, n=1):
        self.counters[name] = self.counters.get(name, 0) + int(n)

    def merge_counters(self, d):
        for k, v in (d or {}).items():
            if isinstance(v, (int, np.integer)):
                self.count(k, v)

    def case_done(self, ident=None, nontrivial=False, sample=None, max_samples=6):
        self.evaluations += 1
        if nontrivial and ident is not None:
            self.nontrivial.add(ident if isinstance(ident, str) else jdump(ident, sort_keys=True))
        if sample is not None and len(self.samples) < max_samples:
            self.samples.append(sample)

    # ---- verdicts -------------------------------------------------------------------------------
    def violation(self, key, what, case=None):
        """Record a witness.  key names the mechanism (never a seed or a random value)."""
        if key in self.known and self.known[key].get("status") == "known":
            self.known_seen.setdefault(key, {"what": self.known[key].get("what", what), "count": 0, "example": what})
            self.known_seen[key]["count"] += 1
            return "known"
        h = hashlib.sha256(jdump({"key": key, "case": case}, sort_keys=True).encode()).hexdigest()[:12]
        rdir = os.path.join(OUT_ROOT, "replays", self.pid)
        os.makedirs(rdir, exist_ok=True)
        path = os.path.join(rdir, f"{h}.json")
        with open(path, "w") as f:
            f.write(jdump({"property": self.pid, "key": key, "what": what, "seed": self.seed, "tier": self.tier,
                           "case": case}, indent=1))
        if not any(v[0] == key for v in self.violations) or len(self.violations) < 20:
            self.violations.append((key, what, path))
        return "violation"

    def note_inconclusive(self, what, fatal=False):
        """fatal: an undecided unit that stands for many cases (a whole chunk, a driver): never folded into the 5 % allowance."""
        self.inconclusive.append(what)
        if fatal:
            self.fatal_inconclusive = getattr(self, "fatal_inconclusive", 0) + 1

    # ---- finish ---------------------------------------------------------------------------------
    def finish(self, rule, require_observed=(), min_nontrivial=2):
        wall = time.time() - self.t0
        cov = {
            "evaluations": int(self.evaluations),
            "distinct_nontrivial": int(len(self.nontrivial)),
            "rule": rule,
            "samples": self.samples if self.samples else [],
            "monitor_counters": dict(sorted(self.counters.items())),
            "inconclusive": len(self.inconclusive),
            "inconclusive_examples": self.inconclusive[:5],
            "known_findings_seen": {k: {"count": v["count"], "example": v["example"]} for k, v in self.known_seen.items()},
        }
        cov.update(self.extra)
        ev = {
            "property_id": self.pid,
            "tier": self.tier,
            "seed": self.seed,
            "level": self.level,
            "coverage": cov,
            "assumptions": self.assumptions,
            "wall_s": round(wall, 2),
            "violations": len(self.violations),
        }
        unobserved = [m for m in require_observed if not self.counters.get(m)]
        broken = []
        if unobserved:
            broken.append(f"deciding monitors observed nothing: {unobserved}")
        if getattr(self, "fatal_inconclusive", 0):
            broken.append(f"{self.fatal_inconclusive} undecided chunks / drivers (each stands for many cases)")
        if getattr(self, "max_inconclusive", None) is not None and len(self.inconclusive) > self.max_inconclusive:
            broken.append(f"{len(self.inconclusive)} inconclusive cases (this check tolerates {self.max_inconclusive})")
        elif self.evaluations and len(self.inconclusive) > 0.05 * max(self.evaluations, 1):
            broken.append(f"{len(self.inconclusive)} inconclusive of {self.evaluations} cases")
        if len(self.nontrivial) < min_nontrivial:
            broken.append(f"only {len(self.nontrivial)} distinct non-trivial cases")
        if not self.replay_case and not self.args.only:   # debugging subsets and replays never overwrite the evidence of a full run
            os.makedirs(os.path.join(OUT_ROOT, "evidence"), exist_ok=True)
            text = jdump(ev, indent=1)
            try:
                import jsonschema

                with open(EVIDENCE_SCHEMA) as f:
                    jsonschema.validate(json.loads(text), json.load(f))
            except ImportError:
                pass
            except Exception as e:  # an invalid evidence file is a broken check
                if not self.violations:
                    broken.append(f"evidence does not validate: {str(e)[:200]}")
            with open(os.path.join(OUT_ROOT, "evidence", f"{self.pid}.json"), "w") as f:
                f.write(text + "\n")
        for k, v in sorted(self.known_seen.items()):
            print(f"KNOWN-FINDING: property={self.pid} {k} — {v['what']} (seen {v['count']}x)")
        print(f"[{self.pid}] tier={self.tier} seed={self.seed} cases={self.evaluations} "
              f"nontrivial={len(self.nontrivial)} inconclusive={len(self.inconclusive)} wall={wall:.1f}s")
        print(f"[{self.pid}] counters: " + ", ".join(f"{k}={v}" for k, v in sorted(self.counters.items())))
        if self.violations:
            seen = set()
            for key, what, path in self.violations:
                if key in seen:
                    continue
                seen.add(key)
                print(f"[{self.pid}] witness key={key}: {what}")
                print(f"VIOLATION property={self.pid} replay={os.path.relpath(path, OUT_ROOT)}")
            sys.stdout.flush()
            os._exit(1) if False else sys.exit(1)
        if broken:
            for b in broken:
                print(f"INCONCLUSIVE property={self.pid} {b}")
            for i in self.inconclusive[:10]:
                print(f"   inconclusive: {i}")
            sys.exit(2)
        print(f"[{self.pid}] held on what was observed")
        sys.exit(0)
