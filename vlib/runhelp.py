"""Shared driver for the checks that run the standard-sampler matrix with the monitors armed."""
from .farm import run_cases
from .space import std_cases, ins_cases


def classify_error(res):
    """Key for a run that raised: ExcType@function (mechanism, no values)."""
    tb = res.get("traceback") or ""
    fn = "?"
    for line in tb.splitlines():
        line = line.strip()
        if line.startswith("File ") and "/nessai/" in line and ", in " in line:
            fn = line.split(", in ")[-1]
    return f"{res['error'].split(':')[0]}@{fn}"


def run_matrix(chk, props, deciding, rule, names=None, extra_case=None, post=None, resume_fraction=3, timeout=150, sampler="standard", finish=True,
               classify=None):
    """sampler: 'standard' or 'ins'. classify(prop, key, detail) may remap a problem key to a mechanism key."""
    target = "vlib.runs:run_standard" if sampler == "standard" else "vlib.runs:run_ins"
    if chk.replay_case:
        from .runs import run_standard, run_ins
        import os

        c = dict(chk.replay_case["case"])
        c["outdir"] = os.path.join(chk.scratch, "replay")
        r = (run_ins if c.get("sampler") == "ins" or c.get("cell", "").startswith("ins") else run_standard)(c)
        print({k: r[k] for k in ("error", "problems", "counts") if k in r})
        if r.get("traceback"):
            print(r["traceback"])
        return
    if sampler == "standard":
        cases = std_cases(chk.seed, chk.tier, chk.scratch, resume_fraction=resume_fraction, names=names)
    else:
        cases = ins_cases(chk.seed, chk.tier, chk.scratch, names=names)
    for c in cases:
        c["props"] = list(props)
    if extra_case:
        cases = [extra_case(c) for c in cases]
    if chk.args.only:
        cases = [c for c in cases if chk.args.only in c["name"]]
    results = run_cases(cases, target, chk.scratch, nproc=chk.args.nproc, timeout=timeout)
    cells = set()
    for c, r in zip(cases, results):
        small = {k: v for k, v in c.items() if k not in ("outdir", "_timeout")}
        if (r.get("_watchdog") or "_died" in r) and c.get("generated"):
            chk.count("generated_configurations_over_budget")
            chk.evaluations += 1
            continue
        if r.get("_watchdog") or "_died" in r or r.get("_error"):
            chk.note_inconclusive(f"{c['name']}: {str(r)[:600]}")
            chk.case_done()
            continue
        chk.merge_counters(r.get("counts"))
        if r.get("budget_exceeded") and not [p for p in r["problems"] if p[0] in props]:
            chk.note_inconclusive(f"{c['name']}: {r['budget_exceeded']} (no witness for this property)")
        if r.get("error") and c.get("generated"):
            # randomly combined options: a combination nessai rejects, or one that fails for reasons owned by C20 (bounded progress / option pairs), is outside this
            # property's quantifier ("supported configurations"); counted, never silently dropped
            chk.count("generated_configurations_rejected_up_front" if r.get("points_at_error") == 0 else "generated_configurations_failing_after_start")
            chk.extra.setdefault("generated_configurations_failing", [])
            if len(chk.extra["generated_configurations_failing"]) < 12:
                chk.extra["generated_configurations_failing"].append(dict(kwargs=c["kwargs"], model=c["model"], error=r["error"][:120], where=classify_error(r)))
            chk.evaluations += 1
            continue
        if (r.get("_watchdog") or r.get("budget_exceeded")) and c.get("generated"):
            chk.count("generated_configurations_over_budget")
            chk.evaluations += 1
            continue
        if r.get("error"):
            # a run that raises is a harness-level event for this property unless the property says otherwise
            key = classify_error(r)
            handled = post(chk, c, r, small, error_key=key) if post else False
            if not handled:
                chk.note_inconclusive(f"{c['name']}: run raised {r['error']} ({key})")
            chk.case_done()
            continue
        mine = [p for p in r["problems"] if p[0] in props]
        observed = all(r["counts"].get(d, 0) > 0 for d in deciding[:1])
        unobserved = [d for d in deciding if not r["counts"].get(d, 0)]
        if unobserved:
            # per-cell view of the deciding monitors (the totals required at the end are pooled over all cells)
            chk.extra.setdefault("cells_in_which_a_deciding_monitor_observed_nothing", {})[c["name"]] = unobserved
        chk.case_done(ident=(c["cell"], c["kwargs"].get("seed"), bool(c.get("resume_at"))), nontrivial=observed,
                      sample=dict(case=small, iterations=r.get("iterations"), segments=r.get("segments"), resumed_from=r.get("resumed_from_iteration"),
                                  logZ=r.get("logZ"), populations=r.get("populations"), n_samples=r.get("n_samples"), wall=r.get("wall"))
                      if sum(1 for x in chk.samples if isinstance(x, dict) and x.get("case", {}).get("cell", "").startswith("ins") == (sampler == "ins")) < 3 else None)
        cells.add(c["cell"])
        if (r.get("segments") or 0) >= 2:
            chk.count("runs_resumed_mid_run")
        chk.count("runs_completed")
        chk.count("iterations_monitored", r.get("iterations", 0))
        for prop, key, detail in mine:
            k = classify(prop, key, detail) if classify else f"{prop}:{key}"
            chk.violation(k, f"{c['name']} ({c['model']}, {c['kwargs']}): {detail}", small)
        if post:
            post(chk, c, r, small, error_key=None)
    chk.extra.setdefault("distinct_cells", [])
    chk.extra["distinct_cells"] = sorted(set(chk.extra["distinct_cells"]) | cells)
    if finish:
        chk.finish(rule, require_observed=deciding)
