"""Generic state digest of a sampler object graph (C12): every array, list, dict and scalar reachable through nessai objects is hashed;
third-party objects are opaque.  A generic walk is what catches a field silently dropped by a custom __getstate__."""
import collections
import datetime
import hashlib
import re

import numpy as np

# Path patterns that legitimately differ between the object that was pickled and the object restored from that pickle.
# Each entry is (regex on the path, reason).  Reviewed against the real code; anything else that differs is reported.
ALLOWED = [
    (r"\.model(\.|$)", "user model is re-attached on resume (not pickled)"),
    (r"^ns\.proposal$", "standard sampler: pointer to the active proposal (alias of _flow_proposal/_uninformed_proposal) is re-established by initialise()/check_resume(); "
                        "both targets are walked under their own names"),
    (r"\.checkpoint_callback$", "not pickled by design"),
    (r"\.resumed$", "flag set by resume, cleared by check_resume"),
    (r"\.initialised$|\._initialised$", "re-initialised on resume"),
    (r"\.sampling_start_time$|\._last_checkpoint$|\._last_log$", "wall-clock bookkeeping"),
    (r"\._draw_func$|\._populate_dist(\.|$)|\._draw_latent_prior$", "latent-draw closures rebuilt at the next population"),
    (r"\.alt_dist(\.|$)", "torch distribution object rebuilt at the next population"),
    (r"\.flow(\.|$)|\._flow_config(\.|$)|\.flow_config(\.|$)", "flow model wrapper: rebuilt from config + weights file (weights are outside the property's list)"),
    (r"\.weights_file$|\.mask$|\.resume_populated$", "resume helpers written by __getstate__"),
    (r"\._previous_likelihood_evaluations$|\._previous_likelihood_evaluation_time$", "resume helpers written by __getstate__"),
    (r"\._verif_ckpt_seq$", "stamp written by this monitor"),
    (r"\._optimiser$|\._resume_n_models$|\._batch_size$", "flow-model internals"),
    (r"\.training_data_prime$|\.training_data$", "kept for plotting; identical unless re-trained (compared when present in both)"),
    (r"\.populating$", "transient flag while a population is in progress"),
    (r"\.info_enabled$|\.debug_enabled$", "logging configuration of the process"),
]
# INS density tables may be re-derived (float32 accuracy) when save_log_q=False: compared numerically by the caller, not by hash.
NUMERIC = [r"\.log_q$"]


def walk(obj, path, out, seen, depth=0, arrays=None):
    if depth > 9:
        out[path] = "<deep>"
        return
    if isinstance(obj, (bool, int, float, str, type(None), np.integer, np.floating, np.bool_)):
        out[path] = repr(obj) if not isinstance(obj, (np.integer, np.floating, np.bool_)) else repr(obj.item())
        return
    if id(obj) in seen:
        out[path] = "<cycle>"
        return
    if isinstance(obj, np.ndarray):
        out[path] = ("nd", str(obj.dtype)[:40], tuple(obj.shape), hashlib.sha256(np.ascontiguousarray(obj).tobytes()).hexdigest()[:16])
        if arrays is not None and any(re.search(p, path) for p in NUMERIC):
            arrays[path] = np.array(obj, dtype=float)
        return
    if isinstance(obj, np.void):
        out[path] = ("void", hashlib.sha256(obj.tobytes()).hexdigest()[:16])
        return
    if isinstance(obj, (datetime.timedelta, datetime.datetime)):
        out[path] = ("time", str(obj))
        return
    try:
        import torch

        if isinstance(obj, (torch.nn.Module, torch.Tensor, torch.optim.Optimizer, torch.distributions.Distribution)):
            out[path] = "<torch>"
            return
    except ImportError:
        pass
    seen = seen | {id(obj)}
    if isinstance(obj, dict):
        if not obj:
            out[path] = "{}"
        for k, v in obj.items():
            walk(v, f"{path}[{k!r}]", out, seen, depth + 1, arrays)
        return
    if isinstance(obj, (list, tuple, collections.deque)):
        if len(obj) == 0:
            out[path] = "[]"
            return
        if len(obj) > 20 or all(isinstance(v, (int, float, np.void, np.ndarray, np.floating, np.integer)) for v in obj):
            try:
                a = np.array(obj)
                if a.dtype == object:
                    raise ValueError
                out[path] = ("seq", len(obj), str(a.dtype)[:30], hashlib.sha256(a.tobytes()).hexdigest()[:16])
                return
            except Exception:
                pass
        for i, v in enumerate(obj):
            walk(v, f"{path}[{i}]", out, seen, depth + 1, arrays)
        return
    if isinstance(obj, (set, frozenset)):
        out[path] = ("set", sorted(map(repr, obj)))
        return
    mod = type(obj).__module__ or ""
    if callable(obj) and not hasattr(obj, "__dict__"):
        out[path] = "<callable>"
        return
    if not mod.startswith(("nessai", "vlib", "__main__")):
        out[path] = f"<{mod}.{type(obj).__name__}>"
        return
    d = getattr(obj, "__dict__", None)
    if d is None:
        out[path] = f"<{type(obj).__name__}>"
        return
    out[path + ".__class__"] = type(obj).__name__
    for k, v in d.items():
        # an attribute that merely aliases another attribute of the same object (standard sampler: .proposal is ._flow_proposal or ._uninformed_proposal)
        alias = next((k2 for k2, v2 in d.items() if k2 != k and v2 is v and k2.startswith("_") and hasattr(v, "__dict__")), None) if k == "proposal" else None
        if alias:
            out[f"{path}.{k}"] = f"<alias of .{alias}>"
            continue
        walk(v, f"{path}.{k}", out, seen, depth + 1, arrays)


def digest(sampler):
    out, arrays = {}, {}
    walk(sampler, "ns", out, set(), arrays=arrays)
    return out, arrays


def allowed(path):
    for pat, why in ALLOWED:
        if re.search(pat, path):
            return why
    return None


def compare(before, after, arrays_before=None, arrays_after=None, f32_tol=2e-4):
    """Returns list of (path, before, after) that differ and are not on the reviewed allow-list."""
    diffs = []
    compare.last_allowed = {}
    for k in sorted(set(before) | set(after)):
        a, b = before.get(k, "<absent>"), after.get(k, "<absent>")
        if isinstance(a, (list, tuple)):
            a = tuple(a)
        if isinstance(b, (list, tuple)):
            b = tuple(b)
        if _norm(a) == _norm(b):
            continue
        why = allowed(k)
        if why:
            compare.last_allowed[why] = compare.last_allowed.get(why, 0) + 1
            continue
        if any(re.search(p, k) for p in NUMERIC):
            x = (arrays_before or {}).get(k)
            y = (arrays_after or {}).get(k)
            if a == "None" and y is not None:
                continue  # table not saved (save_log_q=False) and re-derived: compared by the caller against a re-evaluation
            if x is not None and y is not None and x.shape == y.shape:
                with np.errstate(invalid="ignore"):
                    ok = (np.abs(x - y) <= f32_tol * (1 + np.abs(x))) | (np.isneginf(x) & np.isneginf(y))
                if np.all(ok):
                    continue
        diffs.append((k, str(a)[:120], str(b)[:120]))
    return diffs


def _norm(v):
    if isinstance(v, tuple):
        return tuple(_norm(x) for x in v)
    if isinstance(v, list):
        return tuple(_norm(x) for x in v)
    return v
