"""One segment of a kill/resume history in its own process (C12, also used by C11 for the resume side).

argv[1] = JSON: sampler ('std'|'ins'), model, kwargs, outdir, logdir, seg, kill_at (sampler-attributed likelihood points; 0 = run to completion),
          stop_after_resume_iterations (optional: stop after that many further iterations instead of finishing).
Writes JSON-lines events to <logdir>/seg<seg>.jsonl and digests to <logdir>/digest-<seq>.json.
"""
import json
import os
import sys
import traceback

import numpy as np


def main():
    cfg = json.loads(sys.argv[1])
    if cfg.get("cwd"):
        os.chdir(cfg["cwd"])
    from vlib.common import assert_repo, jdump

    assert_repo()
    from vlib.runs import std_kwargs, ins_kwargs, quiet_logging, reset_globals
    from vlib import zoo
    from vlib.digest import digest, compare

    quiet_logging()
    reset_globals()
    os.makedirs(cfg["logdir"], exist_ok=True)
    logf = open(os.path.join(cfg["logdir"], f"seg{cfg['seg']}.jsonl"), "a")

    import time
    T0 = time.monotonic()

    def log(**ev):
        ev["wall"] = time.monotonic() - T0     # monotonic seconds since this segment's process started its work (upper bound for any time accounted in it)
        logf.write(jdump(ev) + "\n")
        logf.flush()
        os.fsync(logf.fileno())

    from nessai.flowsampler import FlowSampler
    from nessai.samplers import base as sbase
    from nessai.samplers.nestedsampler import NestedSampler
    from nessai.samplers.importancesampler import ImportanceNestedSampler
    from vlib.monitors.standard import StandardMonitors, AbortRun, BudgetExceeded
    from vlib.monitors.ins import INSMonitors
    from vlib.monitors.results import check_standard_result, check_ins_result

    ins = cfg["sampler"] == "ins"
    model = zoo.make(cfg["model"])
    model.kill_at = cfg.get("kill_at") or None
    kw = (ins_kwargs if ins else std_kwargs)(cfg["kwargs"])

    # ---- digest at the moment of pickling, written atomically *before* the real dump
    seq_file = os.path.join(cfg["logdir"], "seq")
    orig_dump = sbase.safe_file_dump

    def next_seq():
        n = int(open(seq_file).read()) + 1 if os.path.exists(seq_file) else 1 + int(cfg.get("seq_offset", 0))
        tmp = seq_file + ".tmp"
        with open(tmp, "w") as f:
            f.write(str(n))
        os.replace(tmp, seq_file)
        return n

    def before_write(data):
        seq = next_seq()
        data._verif_ckpt_seq = seq
        d, arrays = digest(data)
        tmp = os.path.join(cfg["logdir"], f"digest-{seq}.json.tmp")
        with open(tmp, "w") as f:
            f.write(jdump(dict(digest=d, arrays={k: v for k, v in arrays.items()} if ins else {})))
            f.flush()
            os.fsync(f.fileno())
        os.replace(tmp, os.path.join(cfg["logdir"], f"digest-{seq}.json"))
        return seq

    def after_write(data, seq):
        mid = (not ins) and getattr(data, "live_points", None) is not None and len(data.nested_samples) != len(data.insertion_indices)
        log(ev="ckpt", seq=seq, it=int(data.iteration), mid_iteration=bool(mid), pts=int(model.b_points), counter=int(data.model.likelihood_evaluations),
            sampling_time=data.sampling_time.total_seconds(), training_time=data.training_time.total_seconds(),
            likelihood_evaluation_time=data.model.likelihood_evaluation_time.total_seconds())

    last_write_end = [None]
    write_wall = [0.0]   # wall time spent writing checkpoints (and digesting them): nessai stops its sampling clock while a checkpoint is written

    def dump(data, filename, module, save_existing=False):
        t_w = time.monotonic()
        try:
            seq = before_write(data)
            r = orig_dump(data, filename, module, save_existing=save_existing)
            after_write(data, seq)
        finally:
            write_wall[0] += time.monotonic() - t_w
            last_write_end[0] = time.monotonic()
        return r

    # ---- the documented alternative to the resume file: a user checkpoint_callback that stores the pickled sampler itself, handed back through resume_data
    cb_file = os.path.join(cfg["logdir"], "callback_state.pkl")

    def checkpoint_callback(state):
        import pickle

        t_w = time.monotonic()
        try:
            _checkpoint_callback(state, pickle)
        finally:
            write_wall[0] += time.monotonic() - t_w
            last_write_end[0] = time.monotonic()

    def _checkpoint_callback(state, pickle):
        seq = before_write(state)
        blob = pickle.dumps(state)
        with open(cb_file + ".tmp", "wb") as f:
            f.write(blob)
            f.flush()
            os.fsync(f.fileno())
        os.replace(cb_file + ".tmp", cb_file)
        after_write(state, seq)

    sbase.safe_file_dump = dump

    # ---- digest after restore, taken inside the real run path
    restored = {}
    stop_after = cfg.get("stop_after_resume_iterations")

    def after_restore(ns):
        seq = getattr(ns, "_verif_ckpt_seq", None)
        if seq is None or restored.get("done"):
            return
        restored["done"] = True
        try:
            _after_restore(ns, seq)
        finally:
            if stop_after:  # applied only after the restored state has been digested
                ns.max_iteration = ns.iteration + stop_after

    def _after_restore(ns, seq):
        path = os.path.join(cfg.get("digest_dir") or cfg["logdir"], f"digest-{seq}.json")
        if not os.path.exists(path):
            log(ev="restore", seq=seq, error="digest file missing")
            return
        rec = json.load(open(path))
        d, arrays = digest(ns)
        before = {k: (tuple(v) if isinstance(v, list) else v) for k, v in rec["digest"].items()}
        ab = {k: np.array(v, dtype=float) for k, v in rec.get("arrays", {}).items()}
        diffs = compare(before, d, ab, arrays)
        log(ev="restore", seq=seq, it=int(ns.iteration), fields=len(d), diffs=diffs[:20], n_diffs=len(diffs), allowed=compare.last_allowed)

    if not ins:
        orig_cr = NestedSampler.check_resume

        def check_resume(ns):
            was = ns.resumed
            r = orig_cr(ns)
            if was:
                after_restore(ns)
            return r

        NestedSampler.check_resume = check_resume
    else:
        orig_init = ImportanceNestedSampler.initialise

        def initialise(ns):
            was = ns.resumed
            r = orig_init(ns)
            if was:
                ns.resumed = False
                after_restore(ns)
            return r

        ImportanceNestedSampler.initialise = initialise

    mon = (INSMonitors if ins else StandardMonitors)(model)
    mon.abort_props = []
    mon.arm()
    stop_after = cfg.get("stop_after_resume_iterations")
    try:
        extra = {}
        if cfg.get("callback"):
            extra["checkpoint_callback"] = checkpoint_callback
            if os.path.exists(cb_file):
                import pickle

                with open(cb_file, "rb") as f:
                    extra["resume_data"] = pickle.load(f)
        fs = FlowSampler(model, output=cfg["outdir"], resume=True, importance_nested_sampler=ins, signal_handling=False, **extra, **kw)
        ns = fs.ns
        if ins:
            mon.min_samples = ns.min_samples
        log(ev="start", resumed=bool(ns.resumed), it=int(ns.iteration), loaded_seq=getattr(ns, "_verif_ckpt_seq", None), counter=int(model.likelihood_evaluations),
            sampling_time=ns.sampling_time.total_seconds(), training_time=ns.training_time.total_seconds(),
            likelihood_evaluation_time=model.likelihood_evaluation_time.total_seconds(), n_nested=len(ns.nested_samples) if not ins else None)
        if stop_after and not ns.resumed:
            ns.max_iteration = ns.iteration + stop_after
        # wall time of the sampling loop itself (class attribute wrapped for this call only: nothing is pickled with the sampler)
        cls = type(fs.ns)
        loop = cls.nested_sampling_loop
        loop_wall = [0.0]

        def timed_loop(self, *a, **k):
            t_loop = time.monotonic()
            try:
                return loop(self, *a, **k)
            finally:
                # nessai adds to its sampling time when a checkpoint is taken (the last one at the end of the run): the reference interval ends with the last
                # checkpoint write, what follows (final plots, logging) is not sampling time
                end = last_write_end[0] if last_write_end[0] is not None and last_write_end[0] >= t_loop else None
                loop_wall[0] += (end - t_loop) if end is not None else float("nan")

        cls.nested_sampling_loop = timed_loop
        try:
            fs.run(plot=False, save=False)
        finally:
            cls.nested_sampling_loop = loop
        run_wall = loop_wall[0] - write_wall[0]
        if ins:
            check_ins_result(fs, model, mon)
        else:
            mon.end_of_run(ns)
            check_standard_result(fs, model, mon)
        a = ns.samples_unit if ins else np.array(ns.nested_samples)
        names = list(model.names)
        pts = np.ascontiguousarray(np.stack([a[n] for n in names], axis=1))
        uniq = len(np.unique(pts.view([("", pts.dtype)] * pts.shape[1])))
        log(ev="done", it=int(ns.iteration), counter=int(model.likelihood_evaluations), reported_total=int(ns.total_likelihood_evaluations), pts=int(model.b_points),
            n=len(a), unique_points=uniq, sorted=bool(np.all(np.diff(a["logL"]) >= 0)), logZ=float(fs.logZ), finalised=bool(ns.finalised),
            sampling_time=ns.sampling_time.total_seconds(), training_time=ns.training_time.total_seconds(),
            likelihood_evaluation_time=model.likelihood_evaluation_time.total_seconds(), run_wall=run_wall, problems=mon.problems, counts=mon.counts, oob=int(model.b_oob))
    except BaseException as e:
        log(ev="error", error=f"{type(e).__name__}: {e}", traceback=traceback.format_exc()[-1500:], problems=mon.problems)
        logf.close()
        os._exit(3)
    logf.close()
    os._exit(0)


if __name__ == "__main__":
    main()
