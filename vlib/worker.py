"""Farm worker: reads one JSON case per line on stdin, writes one JSON result per line on fd VERIF_RESFD."""
import importlib
import json
import os
import signal
import sys
import traceback


def _dump_stack(signum, frame):
    sys.stderr.write("=== SIGUSR1 watchdog stack dump ===\n")
    traceback.print_stack(frame, file=sys.stderr)
    try:
        from vlib import monitors_state

        sys.stderr.write("counters: %r\n" % (monitors_state.COUNTERS,))
    except Exception:
        pass
    sys.stderr.flush()


def main():
    from vlib.common import jdump

    target = sys.argv[1]
    resfd = int(os.environ["VERIF_RESFD"])
    out = os.fdopen(resfd, "w", buffering=1)
    signal.signal(signal.SIGUSR1, _dump_stack)
    modname, fname = target.split(":")
    fn = getattr(importlib.import_module(modname), fname)
    out.write(jdump({"_ready": True}) + "\n")
    for line in sys.stdin:
        line = line.strip()
        if not line:
            continue
        case = json.loads(line)
        try:
            res = fn(case)
        except BaseException as e:  # SystemExit included: a case must not take the worker down silently
            res = {"_error": f"{type(e).__name__}: {e}", "_traceback": traceback.format_exc()[-3000:]}
        if not isinstance(res, dict):
            res = {"value": res}
        out.write(jdump(res) + "\n")
        out.flush()


if __name__ == "__main__":
    main()
