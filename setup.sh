#!/bin/bash
# Offline set-up: third-party monitor libraries go into the git-ignored .deps beside the checks.
set -e
cd "$(dirname "$0")"
if [ ! -f .deps/.ok ]; then
  rm -rf .deps
  PIP_NO_INDEX=1 /venv/bin/pip install -q --no-index --find-links /opt/veriftools/wheels \
      --target .deps icontract deal jsonschema >/dev/null 2>.deps.log || { cat .deps.log; exit 1; }
  rm -f .deps.log
  touch .deps/.ok
fi
/venv/bin/python - <<'PY'
import sys
sys.path.insert(0, ".deps")
import icontract, jsonschema, nessai
assert nessai.__file__.startswith("/repo/"), nessai.__file__
print("setup ok: icontract", icontract.__version__, "nessai from", nessai.__file__)
PY
