#!/bin/bash
# Runs the pinned baseline suite (hooks: none exist, so "guard off" is the plain tree) and compares with BASELINE.json.
out=${1:-/tmp/nessai-baseline.xml}
cd /repo && /venv/bin/python -m pytest -ra -q -p no:cacheprovider --timeout=900 --continue-on-collection-errors --junitxml=$out > ${out%.xml}.log 2>&1
python3 - "$out" <<'PY'
import sys, json, xml.etree.ElementTree as ET
b = json.load(open('/root/.vp/BASELINE.json'))
t = ET.parse(sys.argv[1]).getroot()
passed, failed = set(), set()
for tc in t.iter('testcase'):
    name = f"{tc.get('classname')}::{tc.get('name')}"
    if tc.find('failure') is not None or tc.find('error') is not None:
        failed.add(name)
    elif tc.find('skipped') is None:
        passed.add(name)
stable = set(b['stable_pass'])
missing = stable - passed
print(f"passed={len(passed)} failed={len(failed)} stable_pass={len(stable)} stable tests not passing now={len(missing)}")
for m in sorted(missing)[:20]:
    print("  NOT PASSING:", m)
newpass = passed - stable
print("newly passing (were always_fail):", sorted(newpass)[:10])
sys.exit(1 if missing else 0)
PY
