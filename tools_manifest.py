#!/usr/bin/env python3
"""Regenerates MANIFEST.json from the table below (one entry per built check) and validates it."""
import json
import os

ROOT = os.path.dirname(os.path.abspath(__file__))
BASELINE = "cd /repo && /venv/bin/python -m pytest -ra -q -p no:cacheprovider --timeout=900 --continue-on-collection-errors"

CHECKS = {
    "C02": dict(
        cat="exploration", technique="reference-model monitor: mpmath quadrature stepped beside _NSIntegralState / compute_weights",
        text="Every increment of the real integral state, finalise(), the posterior weights and compute_weights (int and array schedules) are compared "
             "with an independent 60-digit evaluation of the documented quadrature on seeded sequences of 8 classes (ties, leading -inf, 1e-12..1e5 "
             "dynamic range, offsets, deep log-volumes) x nlive 1..2000 x both shrinkage modes x 3 count schedules, plus shift tests to +-1e5 and a "
             "hypothesis pass. Exploration: held on the sequences generated, not a proof over all sequences.",
        note="trusts mpmath arithmetic at 60 digits and the stated float64 tolerances (1e-9 relative on logZ; 8(k+1)eps on volumes)", ref="DESIGN.md §3 C02"),
    "C10": dict(
        cat="exploration", technique="exactly-once/order monitor with unique ids at the user boundary; exhaustive fake-pool grid + real fork pools with delays",
        text="Exhaustive enumeration of (batch size 0..12 [0..40 thorough], every chunk size, 8 pool kinds, 5 vectorisation variants, 5 interfaces) with a "
             "deterministic in-process pool, checking returned values bit-for-bit against pointwise evaluation, the multiset of ids seen by the user function, "
             "chunk-size compliance and the evaluation counter; plus sampled real fork pools (nessai-created and user-supplied, 1-4 processes) with injected "
             "delays so completion order differs from submission order.",
        note="exhaustive only inside the stated grid; real-pool part sampled; spawn/forkserver start methods and ray pools not reached", ref="DESIGN.md §3 C10"),
    "C04": dict(
        cat="exploration", technique="list-model reference monitor with unique ids stepped beside OrderedSamples; bounded exhaustive histories + long random histories",
        text="Every history init.(thr.[rm].add)^k.[finalise] over a 3-value likelihood alphabet (ties and below/at/above-threshold cases exhaustive), batches of "
             "all multisets up to size 2, thresholds incl. below-all/above-all, k<=2 (quick) / k<=3 and a 4-value alphabet with batches up to 3 (thorough), in each of "
             "the four strict x replace-all modes, is executed on the real store; after every call sortedness, the index partition, id conservation, payload and "
             "log_q alignment, the removed count and the strict live set are compared with a list model. Long random histories add large batches and float ties.",
        note="exhaustive only within the stated bounds; tie order is unspecified and compared as sets; API-forbidden sequences are excluded and listed", ref="DESIGN.md §3 C04"),
    "C16": dict(
        cat="exploration", technique="structural post-condition monitor on every draw + exact binomial frequency monitor over repeated seeded draws",
        text="For 8 weight-vector classes x lengths 1..1e5: returned samples are the indexed input rows, rejection indices strictly increasing, arg-max kept, -inf never "
             "kept, multinomial size = requested / int(ESS); ESS in [1,n] and shift invariant; inclusion/selection frequencies over 4000 (40000 thorough) repetitions "
             "inside exact binomial bounds with total false-alarm probability < 1e-9; the samplers' own wrappers (INS draw_posterior_samples on both sample sets, "
             "FlowSampler.run(posterior_sampling_method=)) are exercised on real runs for every documented method name with explicit and default sizes.",
        note="statistical part decides at a stated false-alarm level and cannot see deviations below its resolution (~6.5 sigma of a binomial count)", ref="DESIGN.md §3 C16"),
    "C18": dict(
        cat="exploration", technique="reference registry model stepped beside config.livepoints + constructor/inverse round-trip monitor, bit-level comparison",
        text="2000 (50000 thorough) generated cases: identifier names incl. unicode/prefix collisions, 0/1/n points, NaN/inf/-0.0/subnormal/1e308 values, registry "
             "histories of add/reset (a fifth of the cases under non-default global options of the iteration field, which registering / resetting extra fields must leave alone); all five constructors with their inverses, with and without non-sampling fields; zero-copy view semantics incl. a model whose "
             "view dtype was cached before the registry changed.",
        note="the registry is process-global; each case starts from reset", ref="DESIGN.md §3 C18"),
    "C01": dict(
        cat="exploration", technique="pre/post state monitor re-bound onto NestedSampler.consume_sample / populate_live_points / finalise in real runs",
        text="Every replacement of every real run over a 52-cell (thorough: 65 cells x 6 seeds plus 400 generated option combinations) configuration matrix is checked against a snapshot of the previous "
             "live set: removed point = previous minimum, all other rows byte-identical, recorded insertion index = slot occupied, new point strictly above, in bounds, "
             "finite prior, logL/logP equal to the raw user functions (8 ulp), ascending order, integral-state length; initial live set, finalise and an end-of-run trace "
             "check (monotone discards, no point recorded twice). A third of the runs are stopped abruptly and resumed from the last checkpoint; two cells are killed right after a training that an empty pool triggered while a replacement was being drawn, with checkpoint_on_training. Tie-prone model exercises "
             "the strict inequality; a uniform prior written without a bounds test leaves the bounds to the samplers' own checks.",
        note="decides only the executions produced (matrix listed in evidence); astropy/lal-dependent reparameterisations and CUDA not reached", ref="DESIGN.md §3 C01"),
    "C03": dict(
        cat="exploration", technique="post-iteration monitor on the real INS loop re-evaluating every stored density from the saved flows with an independent logit/Jacobian",
        text="After update_evidence in every iteration, after finalise and right after every resume, for both the training and the independent sample set: each "
             "log_q[i,j] is recomputed from flow j (own logit + Jacobian), mixture weights are recomputed from the data (fraction of samples per proposal), logQ, logW, "
             "logU, unit-hypercube membership and logL are compared; 52 (thorough 60 x 8 seeds) INS configurations (incl. a prior without a bounds test with no reparameterisation, tie-prone and zero-likelihood-region models, likelihood offsets -2000 / +900) incl. MAF/NSF, no reparameterisation, clip, strict/soft, replace-all, variable "
             "draws, no i.i.d. set and 1-2 stop/resume cycles with and without saved tables (~2.8e6 density cells per quick run).",
        note="float32 tolerance 2e-4(1+|v|) on densities (flows run in float32); samples the map itself clamps are classified by a data predicate", ref="DESIGN.md §3 C03"),
    "C05": dict(
        cat="exploration", technique="post-run oracle on FlowSampler outputs: estimator recomputed from the returned samples alone (mpmath quadrature / longdouble IS estimator)",
        text="For every completed run of both matrices (uninterrupted, stopped-and-resumed, capped, prior-sampling): logZ, its error and all posterior weights are "
             "recomputed from the returned samples with the actual live-count schedule; sample counts, ordering, stored logL/logP vs the raw model, birth likelihoods, "
             "and every result-dictionary field are compared with the sampler object.",
        note="the information recurrence for the error estimate is re-implemented independently in mpmath; runs that leave through the iteration cap use the running "
             "rectangle estimate, as the code documents", ref="DESIGN.md §3 C05"),
    "C09": dict(
        cat="exploration", technique="post-populate / draw-once / latent-radius monitors on every population of real runs + two-sample KS against brute-force prior-in-contour sampling",
        text="Part A: ~370 populations and ~47000 draws of real runs per quick tier are checked for bounds, logP/logL equal to the raw user functions, pool size, index "
             "permutation, at-most-once hand-out, latent radius (draws and pool points mapped forwards) and in-bounds likelihood calls at the user boundary (both samplers). "
             "Part B: 13 (thorough 19 x 4 seeds) stand-alone populations of N=2e4 (1e5) compared with exact prior samples restricted to the contour, KS per parameter, logL "
             "and latent radius at total false-alarm 1e-9 plus the measured forced-acceptance allowance; also restricted to logL above the worst live point.",
        note="statistical resolution ~ KS D of 0.01-0.03; distribution clause not reached for augmented/clustering proposals (listed in evidence); wide-contour literal "
             "failure is a listed known finding with the likelihood-restricted statistic kept armed", ref="DESIGN.md §3 C09"),
    "C15": dict(
        cat="exploration", technique="offline trace checker over recorded (iteration, compared value) events + second run / resume-after-finish digests with a user-boundary call log",
        text="Standard sampler: the condition compared at every iteration is recomputed from a pre-state snapshot; every iteration but the last exceeds the tolerance, "
             "the last meets it or the cap; history rows equal the trace. INS: the guard is evaluated at the first statement of every loop body and at exit, with any/all, "
             "min/max iteration; ESS, log_dZ, fractional error and Z_err are recomputed in longdouble from the stored samples. Finished runs are run again and resumed "
             "from the final checkpoint: identical digests, zero likelihood calls.",
        note="posterior samples are re-drawn at random by design and excluded from the idempotence digest; runs without a final checkpoint (prior sampling) have nothing "
             "to resume and are counted", ref="DESIGN.md §3 C15"),
    "C14": dict(
        cat="exploration", technique="byte-digest comparison of whole runs executed in separate processes under varied hash seeds, pool sizes, user pools and chunk sizes",
        text="6 configurations (thorough: 12 x 3 seeds) of both samplers on an exactly-rounded likelihood are each executed as baseline, in other processes with four "
             "different PYTHONHASHSEED values, twice in one process (fresh, same model object, same settings objects), with n_pool 1-4 and content-keyed delays in the workers, a user-supplied fork pool, chunk sizes 1/7/huge, "
             "parallel prior and pool+chunks; SHA-256 of nested samples, weights, repr(logZ), insertion indices and the evaluation counter must equal the baseline's; pool variants must have evaluated points outside the main process (observed, not assumed).",
        note="torch determinism assumed for pytorch_threads=1 (nessai default); only the fork start method; disable_vectorisation is outside the property's list and not compared",
        ref="DESIGN.md §3 C14"),
    "C17": dict(
        cat="exploration", technique="wrapper capturing the threshold method's own cut + clamping oracle from the property text on generated live sets; in-situ monitor on real INS runs",
        text="3000 (thorough 1e5) generated live sets (sizes 1-5000, six weight classes incl. -inf, tied likelihoods) x both methods with random parameters x min_samples, "
             "min_remove, max_samples, nlive, draw_constant on a real un-run sampler: the returned threshold must be the live likelihood at the clamped index; weighted_quantile "
             "is checked for monotonicity, range, (equal weights) the order-statistic window, the pre-sorted path and invariance under constant log-weight offsets up to the size of real log-likelihoods (+-800, -3000, 1e4); every iteration of real runs checks threshold membership and the "
             "min_samples floor of each training set.",
        note="configurations that cannot all be honoured (min_remove >= size, max_samples < min_samples + nlive, all weights -inf) are excluded and counted", ref="DESIGN.md §3 C17"),
    "C07": dict(
        cat="exploration", technique="round-trip / Jacobian-pairing monitor on the real reparameterisation objects + numeric differentiation of the implemented inverse map",
        text="315 configurations (every registered general and GW reparameterisation name reachable without astropy, option grid, combined and FlowProposal-level "
             "set-ups incl. the 15-parameter GW default set) x point classes (interior, approach to each bound down to 1e-12 of the range, exact bounds, post-update "
             "clouds and the update->reset state) x random boxes of scale 1e-6..1e6: x -> x' -> x'' round trip, non-sampling fields byte-identical, log_J + log_J_inv = 0, spread of (reported - "
             "numerically differentiated) log-Jacobian <= 1e-6 over the batch (constant offsets reported), prime prior = prior / Jacobian up to a constant with the same "
             "support; elementary maps in longdouble down to 1e-15 of the range.",
        note="finite differences only at points clear of kinks and singular sets (counted per reason); the astropy-only distance converter is not reached", ref="DESIGN.md §3 C07"),
    "C11": dict(
        cat="fault_enumeration", technique="real process death at every enumerated file-system operation boundary / byte prefix (fork per crash point), fresh-process resume under the state-digest monitor",
        text="For 5 (thorough 8) driver runs (both samplers, early checkpoint with no predecessor, late checkpoint with predecessor, keep-old on and off, weights saves) a "
             "recording pass lists the audited operations of the real safe_file_dump / save_weights; one forked child per crash point performs the real operation and dies "
             "with os._exit before each operation, right after each operation has returned (e.g. between a rename and the close of a still-open file), after the last, and after each of 5 (40) byte prefixes of the serialised sampler / weights; each of the ~100 (~600) "
             "resulting directories is resumed by a fresh process that must load a checkpoint digest-equal to the previous or the new one, continue sampling under the "
             "C01/C03/C05 monitors, or start afresh when none had completed.",
        note="process death only (no power loss); torch.save is modelled as a sequential writer (validated with strace-injected SIGKILL in the design phase)", ref="DESIGN.md §3 C11"),
    "C12": dict(
        cat="exploration", technique="generic object-graph digest at pickling vs after restore inside the real run path + offline accounting over user-boundary event logs of kill/resume histories",
        text="24 (thorough 300) seeded histories: a run with a checkpoint schedule (every 1/7/50 iterations, every 0.2 s, on training with an iteration or time interval short enough for it to write) is killed by os._exit at the K-th "
             "likelihood point, resumed in a fresh process, killed again (1-3, thorough 1-5 kills), then completed; every checkpoint's full state digest (~300 fields) is "
             "compared after restore with a reviewed allow-list; evaluation counts and timings are checked cumulatively against the call log (restored = checkpointed; never more accounted in a segment than its wall-clock time; the finishing segment within 0.8-1.02 of the wall time of its sampling loop without checkpoint writes); every fourth history checkpoints through a user checkpoint_callback and resumes through resume_data; custom resume_file names, an INS time schedule and runs with nessai's default plotting on; C01/C03/C05 monitors stay armed.",
        note="flow weights are outside the property's list and only reloaded; fields allowed to differ are listed with reasons in vlib/digest.py and counted in the evidence",
        ref="DESIGN.md §3 C12"),
    "C13": dict(
        cat="fault_enumeration", technique="schedule enumeration: the real signal handler invoked from a trace hook before each source line of the sampling loop, fresh resume under conservation/count monitors; real signals to child processes",
        text="~230 (thorough: every line x 4 phases, ~2300) delivered injections over 20 standard-sampler and 15 INS functions (the initial live-point draw and the periodic state / trace plots included); a handler that ran while the run or the process carried on is a violation: FlowSampler.safe_exit(signum, frame) is called "
             "before the chosen line at phases covering the first iteration, uninformed sampling, the switch/first training and late flow sampling; the SystemExit code, "
             "conservation of every live/discarded point at resume, count identities (samples / integral state / insertion indices), and the completed run under the "
             "C01/C03/C05 monitors are checked; for INS the iteration-boundary checkpoint's hash must be unchanged by the handler. Every one of SIGTERM/SIGINT/SIGALRM is raised for real, for each sampler, in child processes that keep nessai's own registered handlers (observer wrapped around signal.getsignal): at function heads, at the n-th entry of any nessai function (deterministic) and after a wall-clock delay (setitimer / timer thread) - 25 (thorough 264) deliveries; the process exit status must be the configured code and the checkpoint left is resumed under the same oracles. 15 (100) histories with 2-4 interruptions and resumes in a "
             "row (uninformed phase, across the proposal switch, flow phase, INS iteration heads) check point conservation at every resume.",
        note="line granularity on the main thread (CPython runs Python-level handlers at bytecode boundaries; a signal inside a C call is deferred to the next boundary); "
             "the three interruption states of the non-restartable replace step are listed known findings decided by state predicates", ref="DESIGN.md §3 C13"),
    "C20": dict(
        cat="exploration", technique="bounded-progress monitor: per-option real runs with logical step budgets (counters on population batches, INS draw batches, iterations, likelihood points) + C05 oracle on clean finishes",
        text="Each of 144 standard and 71 importance-sampler option values (proposal classes, latent priors, radius options, reparameterisations, flow and training options, "
             "reset/retrain policies, uninformed limits, draw/pool sizes down to one on an edge-peaked model, INS thresholds/criteria/redraw/bootstrap/final-flow, posterior sampling methods, plot switches, parallelisation) runs "
             "FlowSampler(...).run(save=True) under step budgets ~15-100x nominal (30 INS iterations for runs without a cap); every run of the two configuration matrices of the run-level checks must complete as well; the outcome must be a configuration error before the first sampler likelihood call or a clean "
             "finish with finite results that satisfy the C05 oracle. Thorough adds 2 seeds and ~600 random compatible pair/triple rows on 2- and 3-parameter models.",
        note="liveness is restated as bounded progress; a wall-clock watchdog without budget overrun is inconclusive; astropy/lal-dependent options are not reachable", ref="DESIGN.md §3 C20"),
    "C06": dict(
        cat="exploration", technique="statistical monitor over many seeded real runs per configuration cell against closed-form evidences and posterior moments, fixed thresholds at total false-alarm 1e-9",
        text="16 cells x 24 seeds (thorough 32 cells x 200 seeds) of both samplers on Gaussian-likelihood models with uniform and truncated-normal priors: finite evidence and "
             "positive error, mean error within a Student-t bound plus the stated Jensen/discretisation allowance, variance ratio of errors to reported uncertainties within "
             "chi-square bounds (kappa 2), pooled posterior means and variances against the truncated-Gaussian closed form, insertion-index p-values; a failing cell is re-run "
             "with fresh seeds and reported only if it fails again. Cells include uninformed sampling disabled, analytic non-uniform priors, augmented proposal, MAF + logit + "
             "shrinkage 't', accumulate-weights (4-d), likelihood offsets of -2000 / +900 in log L, INS default and strict/non-uniform, and a likelihood that is exactly zero on 82 % of the prior for both samplers (the standard sampler's bias there is a listed known finding).",
        note="cannot see a bias below ~q sd/sqrt(S) (reported per cell as 'resolution': ~0.27 in log Z at 24 seeds, ~0.07 at 200 seeds for the standard sampler; ~0.03 / 0.01 for INS)",
        ref="DESIGN.md §3 C06"),
    "C19": dict(
        cat="exploration", technique="read-back monitor: result/config files written by real runs and by the real writers on harvested-template dictionaries are re-read with the standard readers and compared canonically with the in-memory object",
        text="36 real runs (thorough 255) of both samplers x {json, hdf5, h5} x three filename spellings: every key and value of the file is compared with the dictionary "
             "handed to the writer (bit-equal floats incl. NaN/inf, ints, numpy scalars, structured arrays column by column, None); 1500 (30000) dictionaries generated from "
             "113 value templates harvested from real results are written in both formats and read back; 200 (2000) generated keyword-argument sets incl. classes, pools, "
             "callables, torch dtypes check that config.json loads with the standard JSON reader.",
        note="generated dictionaries only contain value shapes that some real configuration produces (a free generator would report things the writers were never asked to do)",
        ref="DESIGN.md §3 C19"),
    "C08": dict(
        cat="exploration", technique="density self-consistency monitor on real flow, FlowModel and proposal objects against a direct composition of the glasflow transforms and closed-form base densities; float64 deciding",
        text="80 (thorough 900) seeded flow configurations (RealNVP/MAF/NSF x linear transforms x batch-norm/actnorm x masks x base distributions incl. LARS x nets x "
             "volume-preserving x d 2/3/5 x float32/float64) in the weight states fresh, perturbed, trained 5 epochs, reset weights (two thirds reached after one-direction-only use since the last training), reset permutations, full reset: generated vs evaluated "
             "log-density, inverse(forward(x)) = x, FlowModel wrappers (incl. supplied latent points and alternative latent distribution) vs direct evaluation, 2-d "
             "normalisation integral; 24 (120) FlowProposal / AugmentedFlowProposal cases (backward vs forward density and latent points, Jacobian pairing) and 6 (36) real INS "
             "runs (draw table = compute_meta_proposal_samples = incremental update_log_q = stored table).",
        note="float32 disagreements are re-examined in float64 with the same weights and only count if they persist; ill-conditioned untrained batch-norm states and clamp bands are "
             "excluded and counted", ref="DESIGN.md §3 C08"),
}

PENDING_REASON = "check designed in DESIGN.md but not yet built/calibrated in this session; not claimed until its monitor is silent on the unchanged tree"


def main():
    props = [json.loads(l)["id"] for l in open(os.path.join(ROOT, "properties.jsonl"))]
    checks = []
    for pid in props:
        if pid not in CHECKS:
            continue
        c = CHECKS[pid]
        checks.append({
            "property_id": pid,
            "quick_cmd": f"./check {pid} --tier quick",
            "thorough_cmd": f"./check {pid} --tier thorough",
            "evidence_file": f"evidence/{pid}.json",
            "replay_cmd_template": f"./check {pid} --replay {{path}}",
            "level_claimed": {"category": c["cat"], "text": c["text"], "design_ref": c["ref"]},
            "level_note": c["note"],
            "technique": c["technique"],
        })
    na = [{"property_id": p, "reason": NOT_APPLICABLE.get(p, PENDING_REASON)} for p in props if p not in CHECKS]
    m = {
        "version": 1,
        "setup_cmd": "./setup.sh",
        "hooks": {"guard": "NESSAI_VERIF", "enable": "no in-repository hooks: monitors are attached from /verif at run time by re-binding class attributes of the "
                  "imported nessai (editable install of /repo's working tree); the guard name is reserved and unused",
                  "baseline_off_cmd": BASELINE, "source_commits": [], "add_only": True},
        "engines": [{"name": "runtime-monitors", "path": "vlib/", "serves_properties": sorted(CHECKS),
                     "kind_free_text": "runtime monitoring: method-boundary monitors, reference models, offline trace checkers, fault injection with real process death, "
                                       "statistical monitors; 16-way subprocess case farm"}],
        "checks": checks,
        "notes": "See DESIGN.md. ./check <ID> --tier quick|thorough; VERIF_SEED seeds all generators; known findings in known_findings.jsonl.",
        "not_applicable": na,
    }
    with open(os.path.join(ROOT, "MANIFEST.json"), "w") as f:
        json.dump(m, f, indent=1)
    try:
        import sys
        sys.path.insert(0, os.path.join(ROOT, ".deps"))
        import jsonschema
        jsonschema.validate(m, json.load(open("/root/.vp/MANIFEST.schema.json")))
        print("MANIFEST.json valid;", len(checks), "checks,", len(na), "not claimed")
    except ImportError:
        print("jsonschema missing; not validated")


NOT_APPLICABLE = {}

if __name__ == "__main__":
    main()
