"""C09 — proposal pools follow the prior inside the contour and never leave the prior.

Part A: post-populate / draw-once / latent-contour / user-boundary monitors armed on every population of real runs of both samplers.
Part B: stand-alone populations compared in distribution with brute-force prior-restricted-to-contour sampling (two-sample KS with an
explicit false-alarm budget and the measured allowance for per-batch forced acceptances).
"""
import math
import os
import shutil

import numpy as np

from vlib.common import Check, assert_repo, rng_for
from vlib.runhelp import run_matrix

ALPHA = 1e-9

DIST_CELLS = [
    # name, model, proposal kwargs, trained, kind
    ("tg-constant-volume", "G2u", {}, True, "flow"),
    ("tg-constant-volume-brief-training", "G2u", {}, "brief", "flow"),
    ("tg-nonuniform-prior", "G2n", {}, True, "flow"),
    ("tg-worst-point-radius", "G2n", {"constant_volume_mode": False}, True, "flow"),
    ("tg-fixed-radius", "G2u", {"constant_volume_mode": False, "fixed_radius": 2.0}, True, "flow"),
    ("nball", "G2n", {"latent_prior": "uniform_nball"}, True, "flow"),
    ("nball-worst-point", "G2u", {"latent_prior": "uniform_nball", "constant_volume_mode": False}, True, "flow"),
    ("accumulate-weights", "G2n", {"accumulate_weights": True}, True, "flow"),
    ("accumulate-weights-many-batches", "G2u", {"accumulate_weights": True, "drawsize": 100}, True, "flow"),
    ("truncate-log-q", "G2n", {"truncate_log_q": True}, True, "flow"),
    ("logit-reparam", "G2n", {"reparameterisations": {"x0": "logit", "x1": "logit"}}, True, "flow"),
    ("drawsize-200", "G2n", {"drawsize": 200}, True, "flow"),
    ("G4-default", "G4u", {}, True, "flow"),
    ("latent-gaussian", "G2n", {"latent_prior": "gaussian", "constant_volume_mode": False}, True, "flow-untruncated"),
    ("latent-flow", "G2n", {"latent_prior": "flow", "constant_volume_mode": False}, True, "flow-untruncated"),
    # augmented proposals: the contour lives in the augmented space, so only the comparison restricted to logL above the worst live point has an exact reference
    ("augmented-marginalised", "G2u", {"marginalise_augment": True, "n_marg": 50}, True, "augmented"),
    ("augmented-2-dims", "G2u", {"augment_dims": 2}, True, "augmented"),
    ("rejection-uniform", "G2u", {}, False, "rejection"),
    ("rejection-nonuniform", "G2n", {}, False, "rejection"),
    ("rejection-nonuniform-box-draws", "G2r", {}, False, "rejection"),
    ("rejection-narrow-prior-box-draws", "G2rn", {}, False, "rejection"),
    ("analytic-nonuniform", "G2n", {}, False, "analytic"),
    ("analytic-uniform", "G4u", {}, False, "analytic"),
]
QUICK_DIST = ["tg-constant-volume", "tg-constant-volume-brief-training", "tg-nonuniform-prior", "tg-worst-point-radius", "nball", "nball-worst-point", "accumulate-weights", "truncate-log-q",
              "logit-reparam", "drawsize-200", "accumulate-weights-many-batches", "latent-gaussian", "augmented-marginalised", "augmented-2-dims", "rejection-nonuniform", "rejection-nonuniform-box-draws", "rejection-narrow-prior-box-draws", "analytic-nonuniform"]


def ks2(a, b):
    from scipy.stats import ks_2samp

    return float(ks_2samp(a, b).statistic)


def ks_threshold(n, m, k, delta):
    return math.sqrt(-math.log(ALPHA / k / 2) / 2) * math.sqrt((n + m) / (n * m)) + delta


def dist_worker(case):
    assert_repo()
    from vlib.runs import quiet_logging, reset_globals, TINY_FLOW

    quiet_logging()
    reset_globals()
    import torch
    from scipy import stats
    from vlib import zoo
    from nessai.proposal import FlowProposal, RejectionProposal, AnalyticProposal

    rng = rng_for(case["seed"], "C09dist", case["name"], case["rep"])
    seed = int(rng.integers(2**31 - 1))
    np.random.seed(seed)
    torch.manual_seed(seed)
    model = zoo.make(case["model"])
    N = case["N"]
    out = case["outdir"]
    shutil.rmtree(out, ignore_errors=True)
    res = dict(name=case["name"], stats=[], problems=[], kind=case["kind"])
    try:
        if case["kind"] in ("rejection", "analytic"):
            cls = RejectionProposal if case["kind"] == "rejection" else AnalyticProposal
            prop = cls(model, poolsize=N)
            prop.initialise()
            prop.populate(N=N)
            pool = prop.samples
            k = len(model.names)
            for nm in model.names:
                u = model.prior_cdf(nm, pool[nm])
                D = float(stats.kstest(u, "uniform").statistic)
                # a rejection pool normalises by the batch maximum weight (one batch): exact when the maximum weight is attained
                thr = math.sqrt(-math.log(ALPHA / k / 2) / (2 * len(pool))) + (1.0 / len(pool))
                res["stats"].append(dict(stat=nm, D=D, threshold=thr, n=len(pool), kind="one-sample vs exact prior CDF"))
                if D > thr:
                    res["problems"].append((f"distribution[{case['kind']}]:pool-differs-from-prior", dict(stat=nm, D=D, threshold=thr)))
            res["pool_size"] = len(pool)
            return res
        kw = dict(case["kwargs"])
        augmented = case["kind"] == "augmented"
        if augmented:
            from nessai.proposal.augmented import AugmentedFlowProposal as FlowProposal
        prop = FlowProposal(model, output=out, poolsize=N, plot=False, flow_config=dict(TINY_FLOW, n_neurons=8),
                            training_config=dict(max_epochs=30 if case["trained"] is True else 2, patience=10), **kw)
        prop.initialise()
        pr = model.sample_prior(4000, rng)
        pr["logP"] = model.raw_log_prior(pr)
        pr["logL"] = model.raw_log_likelihood(pr)
        live = pr[np.argsort(pr["logL"])][-1000:]
        # trained = True: 30 epochs; "brief": 2 epochs (a poor flow: the property must hold for any proposal quality).  A completely untrained flow is
        # not used: nflows' batch-norm layers start with zero running variance, the contour then maps to a region of width ~1e-4 which no finite
        # brute-force reference can populate (inconclusive by construction).
        prop.train(live, plot=False)
        batches = [0]
        orig = prop.draw_latent_prior

        def counted(n):
            batches[0] += 1
            return orig(n)

        prop.draw_latent_prior = counted
        prop.populate(live[0], N=N, plot=False)
        pool = prop.samples
        res["pool_size"] = len(pool)
        res["batches"] = batches[0]
        res["r"], res["fuzz"] = float(prop.r), float(prop.fuzz)
        # ---- brute force: exact prior samples restricted to the latent contour
        M = case["M"]
        ref = model.sample_prior(M, rng)
        ref["logL"] = model.raw_log_likelihood(ref)
        truncated = prop.latent_prior in ("truncated_gaussian", "uniform_nball", "uniform_nsphere")
        if augmented:
            z = np.zeros((len(ref), len(model.names) + prop.augment_dims))
            rad = np.zeros(len(ref))
            inside = np.ones(len(ref), dtype=bool)
            radp = np.zeros(len(pool))
        else:
            z, logq = prop.forward_pass(ref.copy(), rescale=True, compute_radius=False)
            rad = np.sqrt((z**2).sum(axis=1))
            inside = rad <= prop.r * prop.fuzz if truncated else np.ones(len(ref), dtype=bool)
            if prop.truncate_log_q:
                min_log_q = prop.forward_pass(prop.training_data)[1].min()
                inside &= logq > min_log_q
            zp, _ = prop.forward_pass(pool.copy(), rescale=True, compute_radius=False)
            radp = np.sqrt((zp**2).sum(axis=1))
        refin = ref[inside]
        zin = rad[inside]
        res["ref_inside"] = int(inside.sum())
        if truncated and not augmented and radp.max() > prop.r * prop.fuzz * (1 + 2e-3):
            res["problems"].append(("pool-point-outside-latent-contour", dict(max_radius=float(radp.max()), limit=float(prop.r * prop.fuzz))))
        if len(refin) < 2000:
            res["inconclusive"] = f"only {len(refin)} reference points inside the contour"
            return res
        names = list(model.names)
        k = 2 * (len(names) + 2)
        # forced acceptances: one per batch (each batch is normalised by its own maximum weight); with accumulate_weights there is a single global
        # normalisation constant, hence a single forced acceptance for the whole pool
        forced = 1 if prop.accumulate_weights else batches[0]
        delta = forced / len(pool)
        # Mechanism predicate for the known finding D13: when the contour keeps (almost) the whole latent Gaussian — no truncation, or a radius beyond
        # the 99 % mass radius — the weights prior/q are unbounded in the tails and per-batch max-normalised rejection sampling is no longer exact.
        mass = float(stats.chi.cdf(prop.r * prop.fuzz, df=z.shape[1])) if truncated and prop.latent_prior == "truncated_gaussian" else (0.0 if truncated else 1.0)
        res["latent_mass_inside_contour"] = mass
        literal_key = ("distribution:pool-differs-from-prior-restricted-to-contour" if mass < 0.99
                       else "distribution:wide-contour-unbounded-weights:pool-differs-from-prior-on-whole-contour")
        for nm, a, b in ([] if augmented else [(n_, pool[n_], refin[n_]) for n_ in names] + [("logL", pool["logL"], refin["logL"]), ("latent_radius", radp, zin)]):
            D = ks2(a, b)
            thr = ks_threshold(len(a), len(b), k, delta)
            res["stats"].append(dict(stat=nm, D=D, threshold=thr, n=len(a), m=len(b), delta=delta, kind="whole contour"))
            if D > thr:
                res["problems"].append((literal_key, dict(stat=nm, D=D, threshold=thr)))
        # ---- restricted to the part nested sampling can use: logL > logL of the worst live point
        Lw = live[0]["logL"]
        pa, ra = pool["logL"] > Lw, refin["logL"] > Lw
        if pa.sum() > 500 and ra.sum() > 2000:
            # forced acceptances that fall inside the restriction are bounded by the number of batches
            delta_r = forced / pa.sum()
            for nm, a, b in [(n_, pool[n_][pa], refin[n_][ra]) for n_ in names] + [("logL", pool["logL"][pa], refin["logL"][ra])]:
                D = ks2(a, b)
                thr = ks_threshold(len(a), len(b), k, delta_r)
                res["stats"].append(dict(stat=nm, D=D, threshold=thr, n=len(a), m=len(b), delta=delta_r, kind="restricted to logL > worst"))
                if D > thr:
                    res["problems"].append(("distribution:pool-differs-from-prior-inside-likelihood-contour", dict(stat=nm, D=D, threshold=thr)))
            res["restricted_checked"] = True
    except Exception as e:
        import traceback

        res["error"] = f"{type(e).__name__}: {e}"
        res["traceback"] = traceback.format_exc()[-4000:]
    finally:
        shutil.rmtree(out, ignore_errors=True)
    return res


RULE = ("Part A: real runs of both samplers (standard and INS matrices) with the post-populate monitor (bounds, logP and logL re-evaluated through the raw user functions, "
        "pool size, index permutation), the at-most-once draw monitor, the latent-radius monitor on every latent draw and on pool points mapped forwards, and the "
        "user-boundary scan of every likelihood argument. Part B: stand-alone populations (N=2e4 quick / 1e5 thorough) of flow, rejection and analytic proposals compared "
        "with brute-force sampling of the exact prior restricted to the latent contour by two-sample KS per parameter, on logL and on latent radius, threshold "
        "c(1e-9/k) sqrt((n+m)/nm) + batches/N; the same restricted to logL above the worst live point. Non-trivial = run with at least one monitored population or a "
        "distribution cell whose statistics were computed; distinct by cell and seed.")


def raised_inside_populate(tb):
    """True when the exception left a proposal's populate (frames of nessai/proposal/*.py named populate / populate_*): the pool was not produced."""
    lines = [l.strip() for l in (tb or "").splitlines() if l.strip().startswith("File ")]
    return any("/nessai/proposal/" in l and ", in populate" in l for l in lines)


def post(chk, case, res, small, error_key=None):
    """A run in which building the pool itself raises refutes the pool-size clause (no pool of the requested size was produced); other exceptions stay outside C09."""
    if error_key and raised_inside_populate(res.get("traceback")):
        chk.violation(f"C09:populate-raised:{error_key}", f"{case['name']}: {res['error']}", small)
        return True
    return False


def main():
    chk = Check("C09", "exploration")
    assert_repo()
    if chk.replay_case and chk.replay_case["case"].get("kind"):
        c = dict(chk.replay_case["case"])
        c["outdir"] = os.path.join(chk.scratch, "replay")
        print(dist_worker(c))
        return
    run_matrix(chk, props=("C09",), deciding=["C09.populate", "C09.draw", "C09.latent_contour_checks"], rule=RULE, finish=False, post=post)
    if chk.replay_case:
        return
    run_matrix(chk, props=("C09",), sampler="ins", timeout=240, deciding=["C03.sample_set_checks"], rule=RULE, finish=False)
    # ---- Part B
    from vlib.farm import run_cases

    cells = {c[0]: c for c in DIST_CELLS}
    names = QUICK_DIST if chk.quick else [c[0] for c in DIST_CELLS]
    reps = 1 if chk.quick else 4
    cases = []
    for rep in range(reps):
        for nm in names:
            _, model, kw, trained, kind = cells[nm]
            cases.append(dict(name=nm, rep=rep, model=model, kwargs=kw, trained=trained, kind=kind, seed=chk.seed, N=20000 if chk.quick else 100000,
                              M=400000 if chk.quick else 1500000, outdir=os.path.join(chk.scratch, f"dist-{nm}-{rep}"), _timeout=900))
    res = run_cases(cases, "checks.c09:dist_worker", chk.scratch, nproc=chk.args.nproc, timeout=900)
    worst = None
    for c, r in zip(cases, res):
        small = {k: v for k, v in c.items() if k not in ("outdir", "_timeout")}
        if r.get("error") and raised_inside_populate(r.get("traceback")):
            chk.violation(f"C09:populate-raised:{r['error'].split(':')[0]}", f"distribution cell {c['name']}: {r['error']}", small)
            chk.case_done()
            continue
        if "stats" not in r or r.get("error"):
            chk.note_inconclusive(f"distribution cell {c['name']}: {str(r.get('error') or r)[:300]} {r.get('traceback', '')[-300:]}")
            chk.case_done()
            continue
        if r.get("inconclusive"):
            chk.note_inconclusive(f"distribution cell {c['name']}: {r['inconclusive']}")
        chk.count("C09.distribution_cells")
        chk.count("C09.ks_statistics", len(r["stats"]))
        for s in r["stats"]:
            margin = s["D"] / s["threshold"]
            if (worst is None or margin > worst[0]) and not (r.get("latent_mass_inside_contour", 0) >= 0.99 and s["kind"] == "whole contour"):
                worst = (margin, c["name"], s)
        chk.case_done(ident=("dist", c["name"], c["rep"]), nontrivial=len(r["stats"]) > 0,
                      sample=dict(cell=small, pool_size=r.get("pool_size"), batches=r.get("batches"), reference_inside=r.get("ref_inside"), stats=r["stats"][:3])
                      if c["name"] in ("tg-nonuniform-prior", "latent-gaussian") and c["rep"] == 0 else None)
        for key, detail in r["problems"]:
            chk.violation("C09:" + key, f"distribution cell {c['name']} ({c['model']}, {c['kwargs']}, trained={c['trained']}): {detail}", small)
    if worst:
        chk.extra["worst_margin"] = dict(D_over_threshold=round(worst[0], 3), cell=worst[1], statistic=worst[2])
    chk.extra["not_reached"] = ["distributional clause for AugmentedFlowProposal (contour lives in the augmented latent space) and ClusteringFlowProposal "
                                "(sample_and_log_prob ignores supplied latent points): monitors of part A only"]
    chk.assumptions += ["zoo priors have exact samplers and CDFs", "KS decisions at total false-alarm probability 1e-9 per cell plus the measured forced-acceptance allowance"]
    chk.finish(RULE, require_observed=["C09.populate", "C09.draw", "C09.latent_contour_checks", "C09.distribution_cells", "C09.ks_statistics"])


if __name__ == "__main__":
    main()
