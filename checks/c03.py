"""C03 — every INS sample carries the exact meta-proposal density and weight (post-iteration re-evaluation monitor)."""
from vlib.common import Check, assert_repo
from vlib.runhelp import run_matrix


DENSITY_STEPS = ("update_proposal_weights", "add_new_proposal_weight", "compute_log_Q", "update_log_q", "add_and_update_points", "add_samples",
                 "compute_meta_proposal_samples", "compute_meta_proposal_from_log_q")


def post(chk, case, res, small, error_key=None):
    """A run that raises from the density/weight bookkeeping itself (e.g. nessai's own 'weights must sum to 1' guard) refutes C03."""
    if error_key and error_key.split("@")[-1] in DENSITY_STEPS:
        chk.violation(f"C03:exception:{error_key}", f"{case['name']}: {res['error']}", small)
        return True
    return False


def main():
    chk = Check("C03", "exploration")
    assert_repo()
    run_matrix(chk, props=("C03",), sampler="ins", timeout=240, post=post,
               deciding=["C03.sample_set_checks", "C03.density_cells_reevaluated", "C03.held_density_function_cells"],
               rule="real importance-nested-sampler runs over the INS matrix (flow types, logit/none reparameterisation, clip, strict/soft threshold, replace-all, "
                    "constant/variable draws, with/without the independent set, threshold methods, 1-2 checkpoint/resume cycles with and without saved density "
                    "tables); after update_evidence in every iteration, after finalise and right after resume every stored per-proposal density is re-evaluated "
                    "from the saved flows with an independent logit/Jacobian, the density function handed out by get_proposal_log_prob while a proposal was the newest is called again "
                    "after later proposals were added and compared with that proposal's density, mixture weights are recomputed from the data, and logQ/logW/logU/logL are compared. "
                    "Non-trivial = run in which at least one sample set was re-evaluated; distinct by (cell, seed, resumed).")


if __name__ == "__main__":
    main()
