"""C19 — saved results read back equal to the in-memory results; config.json loads with the standard JSON reader.

Three kinds of cases (all through the run farm):
  run    : a tiny real run of either sampler with result_extension in {json, hdf5, h5}; the file written by the run and
           nine more written by FlowSampler.save_results (3 extensions x 3 filename spellings) are read with the standard
           readers and compared with ns.get_result_dictionary() + posterior samples (vlib.oracles.results_readback);
           the value shapes of the dictionaries handed to the writers are harvested as templates;
  gen    : dictionaries generated from the harvested templates (vlib.oracles.results_templates) written by
           save_to_json / save_dict_to_hdf5 and compared the same way;
  config : FlowSampler(...) constructed (not run) with generated accepted keyword arguments containing classes, pools,
           callbacks, numpy values and nested dictionaries; config.json must load and JSON-native values round-trip.
"""
import functools
import json
import os
import shutil
import time
import traceback

import numpy as np

from vlib.common import Check, assert_repo, rng_for

EXTS = ["json", "hdf5", "h5"]

# (name, model, sampler kwargs, model attributes, run kwargs)
STD_SPECIAL = [
    ("std-default", "G2u", {}, {}, {}),
    ("std-analytic-priors", "G2n", {"analytic_priors": True}, {}, {}),
    ("std-prior-sampling", "G2u", {"prior_sampling": True}, {}, {}),
    ("std-capped-not-finalised", "G2u", {"max_iteration": 150}, {}, {}),
    ("std-checkpointing", "G2u", {"checkpointing": True, "checkpoint_on_iteration": True, "checkpoint_interval": 100}, {}, {}),
    ("std-seed-none-truth", "G2u", {"seed": None}, {"truth": {"x0": 0.0, "x1": 0.25}}, {}),
]
INS_SPECIAL = [
    ("ins-default", "G2u", {"max_iteration": 6}, {}, {}),
    ("ins-no-iid-live", "G2u", {"max_iteration": 6, "draw_iid_live": False}, {}, {}),
    ("ins-checkpointing", "G2u", {"max_iteration": 6, "checkpointing": True, "checkpoint_on_iteration": True, "checkpoint_interval": 1}, {}, {}),
    ("ins-redraw-samples", "G2u", {"max_iteration": 6}, {}, {"redraw_samples": True, "n_posterior_samples": 100}),
    ("ins-redraw-initial-posterior", "G2u", {"max_iteration": 6}, {}, {"redraw_samples": True, "compute_initial_posterior": True}),
    ("ins-stop-at-first-iteration", "G2u", {"max_iteration": 1}, {}, {}),
]


# ---------------------------------------------------------------------------------------------------------------
# run cases
# ---------------------------------------------------------------------------------------------------------------
def run_cases_list(chk):
    cases = []
    for name, model, kw, attrs, rkw in STD_SPECIAL:
        for ext in EXTS:
            cases.append(dict(kind="run", name=f"{name}:{ext}", ins=False, model=model, kwargs=kw, model_attrs=attrs, run_kwargs=rkw, ext=ext))
    for name, model, kw, attrs, rkw in INS_SPECIAL:
        for ext in EXTS:
            cases.append(dict(kind="run", name=f"{name}:{ext}", ins=True, model=model, kwargs=kw, model_attrs=attrs, run_kwargs=rkw, ext=ext))
    if not chk.quick:
        from vlib.space import STD_CELLS, INS_CELLS

        # every cell of the standard and INS configuration matrices as a source of value types, once per extension
        for ext in EXTS:
            for nm, model, kw in STD_CELLS:
                cases.append(dict(kind="run", name=f"cell:{nm}:{ext}", ins=False, model=model, kwargs=kw, model_attrs={}, run_kwargs={}, ext=ext))
            for nm, model, kw, _ in INS_CELLS:
                cases.append(dict(kind="run", name=f"cell:{nm}:{ext}", ins=True, model=model, kwargs=kw, model_attrs={}, run_kwargs={}, ext=ext))
    for i, c in enumerate(cases):
        c["seed"] = chk.seed
        # output directories as users name them: plain, with a dot in the name (version suffixes), with a trailing slash
        c["outdir"] = os.path.join(chk.scratch, [f"run-{i}", f"run.v{i}", f"run-{i}.d/"][i % 3])
        c["_timeout"] = 400
    return cases


def _diagnose_writer(d, fmt, path=""):
    """First leaf of d that the writer cannot store on its own: (path pattern, type name, exception name)."""
    from nessai.utils.io import NessaiJSONEncoder, encode_for_hdf5
    from vlib.oracles.results_readback import type_name

    for k, v in d.items():
        sub = f"{path}/{k}" if path else str(k)
        if isinstance(v, dict):
            r = _diagnose_writer(v, fmt, sub)
            if r:
                return r
            continue
        try:
            if fmt == "json":
                json.dumps({str(k): v}, cls=NessaiJSONEncoder)
            else:
                import h5py

                with h5py.File("diagnose", "w", driver="core", backing_store=False) as f:
                    f["x"] = encode_for_hdf5(v)
        except Exception as e:
            inner = ""
            if isinstance(v, (list, tuple)):
                inner = "[" + "+".join(sorted({type_name(x) for x in v})) + "]"
            return sub, type_name(v) + inner, type(e).__name__
    return None


def run_worker(case):
    from vlib.runs import std_kwargs, ins_kwargs, quiet_logging, reset_globals

    quiet_logging()
    reset_globals()
    import nessai.flowsampler as nf
    from nessai.flowsampler import FlowSampler
    from vlib import zoo
    from vlib.oracles import results_readback as rb
    from vlib.oracles import results_templates as tp

    t0 = time.time()
    out = case["outdir"]
    shutil.rmtree(out, ignore_errors=True)
    ins = case["ins"]
    ext = case["ext"]
    kw = (ins_kwargs if ins else std_kwargs)(case.get("kwargs", {}))
    if "seed" not in case.get("kwargs", {}):
        kw["seed"] = int(rng_for(case["seed"], "C19", "run", case["name"]).integers(1, 2 ** 31 - 1))
    model = zoo.make(case["model"])
    for k, v in case.get("model_attrs", {}).items():
        setattr(model, k, v)
    res = dict(name=case["name"], ins=ins, ext=ext, status="ok", error=None, files=[], problems=[], values=0, templates={}, counts={})
    captured = []
    orig_json, orig_h5 = nf.save_to_json, nf.save_dict_to_hdf5

    def wrap_json(d, filename, **kwargs):
        if os.path.basename(filename) != "config.json":
            captured.append(("json", filename, d))
        return orig_json(d, filename, **kwargs)

    def wrap_h5(d, filename):
        captured.append(("hdf5", filename, d))
        return orig_h5(d, filename)

    nf.save_to_json, nf.save_dict_to_hdf5 = wrap_json, wrap_h5
    fs = None
    try:
        try:
            fs = FlowSampler(model, output=out, resume=False, signal_handling=False, importance_nested_sampler=ins, result_extension=ext, **kw)
            fs.run(plot=False, save=True, **case.get("run_kwargs", {}))
            run_saved = True
        except Exception as e:
            tb = traceback.format_exc()
            run_saved = False
            if "in save_results" in tb and captured:
                fmt = captured[-1][0]
                diag = _diagnose_writer(captured[-1][2], fmt)
                pat, tname, exc = diag if diag else ("<unknown>", "dict", type(e).__name__)
                res["problems"].append([f"C19:{fmt}:{tname}-at-{pat}:writer-raises-{exc}", f"run's own save_results: {type(e).__name__}: {str(e)[:160]}"])
            else:
                fn = [l.split(", in ")[-1].strip() for l in tb.splitlines() if l.strip().startswith("File ") and "/nessai/" in l][-1:]
                res["status"] = "not_reached"
                res["error"] = f"{type(e).__name__}@{fn[0] if fn else '?'}: {str(e)[:160]}"
                return res
        if not hasattr(fs, "posterior_samples"):
            res["status"] = "not_reached"
            res["error"] = "run saved nothing and produced no posterior samples"
            return res

        def fresh():
            d = fs.ns.get_result_dictionary()
            d["posterior_samples"] = fs.posterior_samples
            if hasattr(fs, "initial_posterior_samples"):
                d["initial_posterior_samples"] = fs.initial_posterior_samples
            return d

        def check_file(label, fmt, path, cap):
            entry = dict(label=label, fmt=fmt, file=os.path.basename(path))
            if not os.path.exists(path):
                res["problems"].append([f"C19:{fmt}:file-not-written:{label.split(':')[-1]}", f"{os.path.basename(path)} missing; directory has {sorted(os.listdir(os.path.dirname(path)))[:12]}"])
                return
            try:
                back = rb.read_back(path, fmt)
            except Exception as e:
                res["problems"].append([f"C19:{fmt}:standard-reader-raises-{type(e).__name__}", f"{label}: {str(e)[:160]}"])
                return
            exp = fresh()
            if cap is not None:
                # timings are the only entries that could move between two calls of get_result_dictionary: take them
                # from the very dictionary that was written
                for k in list(exp):
                    if k.endswith("_time") and k in cap:
                        if not rb.mem_equal(exp[k], cap[k]):
                            res["counts"]["volatile_values_taken_from_written_dict"] = res["counts"].get("volatile_values_taken_from_written_dict", 0) + 1
                        exp[k] = cap[k]
            probs, nval = rb.compare(exp, back, fmt, by_name=("posterior_samples",))
            entry.update(values=nval, problems=len(probs), keys=len(exp))
            res["values"] += nval
            res["files"].append(entry)
            for k, detail in probs:
                res["problems"].append([k, f"{label}: {detail}"])

        # 1. the file the run itself wrote
        if run_saved:
            cap = captured[-1][2] if captured else None
            check_file(f"run:{ext}:result", "json" if ext == "json" else "hdf5", os.path.join(out, "result." + ext), cap)
        # 2. save_results with every extension and filename spelling
        for e2 in EXTS:
            fmt = "json" if e2 == "json" else "hdf5"
            for spelling, fname, extension in (("no-extension-in-name", f"again_{e2}", e2), ("extension-in-name-only", f"named_{e2}.{e2}", None),
                                               ("extension-in-name-and-argument", f"both_{e2}.{e2}", e2)):
                n0 = len(captured)
                try:
                    fs.save_results(os.path.join(out, fname), extension=extension)
                except Exception as e:
                    if len(captured) > n0:
                        diag = _diagnose_writer(captured[-1][2], fmt)
                        pat, tname, exc = diag if diag else ("<unknown>", "dict", type(e).__name__)
                        res["problems"].append([f"C19:{fmt}:{tname}-at-{pat}:writer-raises-{exc}", f"save_results({fname!r}, extension={extension!r}): {type(e).__name__}: {str(e)[:160]}"])
                    else:
                        res["problems"].append([f"C19:{fmt}:save_results-raises-{type(e).__name__}:{spelling}", f"save_results({fname!r}, extension={extension!r}): {str(e)[:160]}"])
                    continue
                cap = captured[-1][2] if len(captured) > n0 else None
                expect = os.path.join(out, fname if "." in fname else f"{fname}.{e2}")
                check_file(f"save_results:{e2}:{spelling}", fmt, expect, cap)
        # 3. templates: the value shapes of the dictionaries the writers were really given
        for fmt, _, d in captured:
            try:
                res["templates"][fmt] = tp.merge(res["templates"].get(fmt), tp.harvest(d))
            except Exception as e:  # pragma: no cover
                res["counts"]["harvest_failed"] = 1
                res["error"] = f"harvest: {type(e).__name__}: {e}"
        res["counts"]["writer_calls_captured"] = len(captured)
        res["finalised"] = bool(getattr(fs.ns, "finalised", False))
        res["n_posterior"] = int(np.size(fs.posterior_samples))
    finally:
        nf.save_to_json, nf.save_dict_to_hdf5 = orig_json, orig_h5
        try:
            model.close_pool()
        except Exception:
            pass
        res["wall"] = round(time.time() - t0, 2)
        if not case.get("keep_output"):
            shutil.rmtree(out, ignore_errors=True)
    return res


# ---------------------------------------------------------------------------------------------------------------
# generated dictionaries
# ---------------------------------------------------------------------------------------------------------------
def gen_one(seed, n, trees, workdir, counts):
    from nessai.utils.io import save_to_json, save_dict_to_hdf5
    from vlib.oracles import results_readback as rb
    from vlib.oracles import results_templates as tp

    rng = rng_for(seed, "C19", "gen", n)
    u = rng.random()  # always one draw, so that a replay holding only one sampler's templates regenerates the same dictionary
    src = "ins" if u < 0.5 else "std"
    if src not in trees:
        src = sorted(trees)[0]
    stats = {}
    with np.errstate(all="ignore"):
        d = tp.gen_dict(tp.root_dict(trees[src]), rng, 0, stats)
    problems = []
    values = 0
    for fmt, writer, fname in (("json", save_to_json, "g.json"), ("hdf5", save_dict_to_hdf5, "g.hdf5")):
        path = os.path.join(workdir, fname)
        if os.path.exists(path):
            os.remove(path)
        try:
            writer(d, path)
        except Exception as e:
            diag = _diagnose_writer(d, fmt)
            pat, tname, exc = diag if diag else ("<unknown>", "dict", type(e).__name__)
            problems.append([f"C19:{fmt}:{tname}-at-{pat}:writer-raises-{exc}", f"{type(e).__name__}: {str(e)[:160]}"])
            continue
        try:
            back = rb.read_back(path, fmt)
        except Exception as e:
            problems.append([f"C19:{fmt}:standard-reader-raises-{type(e).__name__}", str(e)[:160]])
            continue
        counts["files_read_back"] += 1
        probs, nval = rb.compare(d, back, fmt)
        values += nval
        problems += probs
    for k, v in stats.items():
        counts["generated_" + k] = counts.get("generated_" + k, 0) + v
    return dict(n=n, source=src, keys=len(d), values=values, problems=problems, types=stats)


def gen_worker(case):
    os.makedirs(case["workdir"], exist_ok=True)
    counts = dict(files_read_back=0)
    out = []
    for n in case["ids"]:
        try:
            out.append(gen_one(case["seed"], n, case["trees"], case["workdir"], counts))
        except Exception as e:
            out.append(dict(n=n, source="?", keys=0, values=0, types={}, problems=[[f"C19:check-error:{type(e).__name__}", traceback.format_exc()[-600:]]]))
    return dict(results=out, counts=counts)


# ---------------------------------------------------------------------------------------------------------------
# config.json
# ---------------------------------------------------------------------------------------------------------------
def _callback(state):
    return None


class _CallableObject:
    def __call__(self, state):
        return None


class FakePool:
    """Pool-like object: map + _processes (what nessai needs from a user pool)."""

    def __init__(self, n):
        self._processes = n

    def map(self, f, it, chunksize=None):
        return list(map(f, it))

    imap = map

    def close(self):
        pass

    terminate = join = close


def _pick(rng, values):
    return values[int(rng.integers(len(values)))]


def gen_flow_config(rng):
    import torch.nn.functional as F

    cfg = dict(n_blocks=_pick(rng, [2, np.int64(2), np.int32(3)]), n_neurons=_pick(rng, [4, np.int64(8)]), n_layers=_pick(rng, [1, np.int16(2)]))
    extras = [
        ("ftype", ["realnvp", "RealNVP", "maf", "nsf"]),
        ("batch_norm_between_layers", [True, False, np.bool_(True)]),
        ("linear_transform", ["lu", "permutation", None]),
        ("mask", [np.array([1, -1]), np.array([[1.0, -1.0], [-1.0, 1.0]]), [1, -1]]),
        ("activation", [F.relu, F.silu, "relu"]),
        ("dropout_probability", [0.0, np.float64(0.1), np.float32(0.25)]),
        ("distribution_kwargs", [None, {"nu": np.float32(5.0)}, {"means": np.zeros(2), "nested": {"scale": np.float64(2.0), "names": ("a", "b")}}]),
        ("pre_transform", [None, "batch_norm", "logit"]),
        ("pre_transform_kwargs", [None, {"eps": np.float64(1e-5)}, {"eps": 1e-6, "momentum": np.array(0.1)}]),
    ]
    for k, vals in extras:
        if rng.random() < 0.3:
            cfg[k] = _pick(rng, vals)
    return cfg


def gen_training_config(rng):
    cfg = dict(max_epochs=_pick(rng, [10, np.int64(20)]), patience=_pick(rng, [5, np.int32(5)]))
    extras = [
        ("lr", [1e-3, np.float32(1e-3), np.float64(5e-4)]),
        ("batch_size", [1000, "all", np.int64(100)]),
        ("val_size", [0.1, np.float64(0.2)]),
        ("annealing", [True, False, np.bool_(True)]),
        ("clip_grad_norm", [5.0, None, np.float64(1.0)]),
        ("noise_type", [None, "constant", "adaptive"]),
        ("noise_scale", [None, 0.1, np.float64(0.01), float("nan"), float("inf")]),
        ("optimiser", ["adam", "adamw", "sgd"]),
        ("optimiser_kwargs", [None, {"weight_decay": np.float64(1e-4)}, {"betas": (0.9, np.float32(0.99))}, {}]),
        ("device_tag", ["cpu"]),
    ]
    for k, vals in extras:
        if rng.random() < 0.3:
            cfg[k] = _pick(rng, vals)
    return cfg


def gen_reparameterisations(rng):
    from nessai.reparameterisations import RescaleToBounds, Rescale

    return _pick(rng, [
        None,
        {"x0": "logit", "x1": "default"},
        {"x0": "inversion", "x1": "default"},
        {"x0": {"reparameterisation": "rescaletobounds", "update_bounds": True}, "x1": "zscore"},
        {"rescaletobounds": {"parameters": ["x0", "x1"], "prior_bounds": {"x0": np.array([-5.0, 5.0]), "x1": [-5, 5]}}},
        {"scale": {"parameters": ["x0"], "scale": np.float64(2.0)}, "x1": "null"},
        {"x0": {"reparameterisation": "rescale", "scale": np.array([2.0])}},
        {"x0": {"reparameterisation": RescaleToBounds, "rescale_bounds": np.array([0.0, 1.0]), "boundary_inversion": np.bool_(False)}},
        {"x0": {"reparameterisation": Rescale, "scale": np.float32(3.0)}, "x1": {"reparameterisation": "zscore", "nested": {"deeper": {"value": None, "array": np.arange(3)}}}},
    ])


def gen_kwargs(rng, ins):
    """(kwargs for FlowSampler, named FlowSampler arguments, cleanup callables)."""
    from nessai.proposal import FlowProposal, AugmentedFlowProposal, RejectionProposal, AnalyticProposal

    class MyProposal(FlowProposal):
        pass

    cleanup = []
    bools = [True, False]

    def pool_value():
        r = rng.random()
        if r < 0.45:
            return FakePool(2)
        if r < 0.8:
            return FakePool(np.int64(4))
        if r < 0.9:
            return None
        import multiprocessing

        p = multiprocessing.Pool(2)
        cleanup.append(lambda: (p.terminate(), p.join()))
        return p

    callbacks = [None, _callback, lambda state: None, _CallableObject(), functools.partial(_callback)]
    common = [
        ("seed", [None, 1, 1234, np.int64(7), np.uint32(9)]),
        ("checkpointing", bools),
        ("checkpoint_interval", [600, 10, 0.5, np.float64(30.0), np.int64(60)]),
        ("checkpoint_on_iteration", bools),
        ("checkpoint_callback", callbacks),
        ("logging_interval", [None, 10, np.int64(5)]),
        ("log_on_iteration", bools),
        ("plot", bools),
        ("pool", "@pool"),
        ("n_pool", [None, None, None, 2]),
        ("max_iteration", [None, 10, 500, np.int64(300)]),
        ("flow_config", "@flow"),
        ("training_config", "@training"),
    ]
    if not ins:
        table = common + [
            ("nlive", [50, 100, 128, np.int64(100), np.int32(64)]),
            ("stopping", [0.1, 0.5, np.float64(0.2), np.float32(0.25), 1e-3, 1]),
            ("checkpoint_on_training", bools),
            ("proposal_plots", bools),
            ("prior_sampling", bools),
            ("analytic_priors", bools),
            ("maximum_uninformed", [None, 0, 100, np.inf, float("inf"), np.int64(50)]),
            ("uninformed_proposal", [None, RejectionProposal, AnalyticProposal]),
            ("uninformed_acceptance_threshold", [None, 0.1, np.float64(0.05)]),
            ("uninformed_proposal_kwargs", [None, {}, {"poolsize": np.int64(100)}]),
            ("flow_proposal_class", [None, "FlowProposal", "flowproposal", "AugmentedFlowProposal", FlowProposal, AugmentedFlowProposal, MyProposal]),
            ("training_frequency", [None, 50, np.inf, "inf", np.int64(100)]),
            ("train_on_empty", bools),
            ("cooldown", [200, 10, np.int64(20)]),
            ("memory", [False, 50, np.int64(100)]),
            ("reset_weights", [False, True, 2, 2.0, np.int64(3), np.float64(1.0)]),
            ("reset_permutations", [False, True, 2, np.int64(3)]),
            ("reset_flow", [False, True, 2, np.float64(4.0)]),
            ("retrain_acceptance", bools),
            ("reset_acceptance", bools),
            ("acceptance_threshold", [0.01, np.float64(0.05), np.float32(0.1)]),
            ("shrinkage_expectation", ["logt", "t"]),
            ("trace_parameters", [None, ["x0"], ("x0", "x1"), np.array(["x0"])]),
            ("poolsize", [None, 100, np.int64(200)]),
            ("latent_prior", ["truncated_gaussian", "gaussian", "uniform_nball", "uniform", "flow"]),
            ("constant_volume_mode", bools),
            ("volume_fraction", [0.95, np.float32(0.9), np.float64(0.8)]),
            ("fuzz", [1.0, 1.5, np.float64(1.2)]),
            ("fixed_radius", [False, 2.5, np.float64(3.0)]),
            ("drawsize", [None, 100, np.int64(50)]),
            ("check_acceptance", bools),
            ("truncate_log_q", bools),
            ("expansion_fraction", [4.0, None, 1, np.float64(2.0)]),
            ("min_radius", [False, 1.0, np.float64(0.5)]),
            ("max_radius", [50.0, False, np.float64(10)]),
            ("max_poolsize_scale", [10, np.int64(5)]),
            ("update_poolsize", bools),
            ("accumulate_weights", bools),
            ("save_training_data", bools),
            ("compute_radius_with_all", bools),
            ("reparameterisations", "@reparam"),
            ("fallback_reparameterisation", ["zscore", None, "rescaletobounds"]),
            ("use_default_reparameterisations", [None, True, False]),
            ("reverse_reparameterisations", bools),
            ("augment_dims", [1, np.int64(2)]),
            ("marginalise_augment", bools),
        ]
    else:
        table = common + [
            ("nlive", [200, 500, np.int64(300)]),
            ("n_initial", [None, 300, np.int64(250)]),
            ("save_existing_checkpoint", bools),
            ("save_log_q", bools),
            ("plotting_frequency", [5, np.int64(2)]),
            ("min_iteration", [None, 2, np.int64(3)]),
            ("min_samples", [50, np.int64(100)]),
            ("min_remove", [1, 5, np.int64(2)]),
            ("max_samples", [None, 1000, np.int64(2000)]),
            ("stopping_criterion", ["ratio", ["ratio", "ess"], ("ess",), "log_dZ", "fractional_error"]),
            ("tolerance", [0.0, [0.0, 1000.0], np.float64(0.01), np.array([0.0]), (1000.0,), np.float32(0.5)]),
            ("n_update", [None, 50, np.int64(20)]),
            ("plot_pool", bools), ("plot_level_cdf", bools), ("plot_trace", bools), ("plot_likelihood_levels", bools),
            ("plot_training_data", bools), ("plot_extra_state", bools),
            ("trace_plot_kwargs", [None, {"figsize": (6, 4)}, {"figsize": np.array([6.0, 4.0]), "nested": {"dpi": np.int64(100), "none": None}}]),
            ("replace_all", bools),
            ("threshold_method", ["entropy", "quantile"]),
            ("threshold_kwargs", [None, {"q": 0.8}, {"q": np.float64(0.5), "include_likelihood": np.bool_(True)}]),
            ("check_criteria", ["any", "all"]),
            ("weighted_kl", bools), ("draw_constant", bools), ("train_final_flow", bools), ("bootstrap", bools),
            ("strict_threshold", bools), ("draw_iid_live", bools),
            ("reparameterisation", ["logit", None]),
            ("reset_flow", [True, False, 2, np.int64(3)]),
            ("clip", bools), ("plot_training", bools),
        ]
    kwargs = {}
    for name, vals in table:
        if rng.random() > (0.22 if name not in ("pool", "checkpoint_callback", "flow_config", "flow_proposal_class", "reparameterisations") else 0.45):
            continue
        if vals == "@pool":
            v = pool_value()
        elif vals == "@flow":
            v = gen_flow_config(rng)
        elif vals == "@training":
            v = gen_training_config(rng)
        elif vals == "@reparam":
            v = gen_reparameterisations(rng)
        else:
            v = _pick(rng, vals)
        kwargs[name] = v
    if "n_pool" in kwargs and kwargs.get("pool") is not None:
        del kwargs["n_pool"]
    named = {}
    if rng.random() < 0.2:
        named["eps"] = _pick(rng, [None, 1e-6, np.float64(1e-7)])
    if rng.random() < 0.2:
        import torch

        named["torch_dtype"] = _pick(rng, [None, "float32", "float64", torch.float32])
    return kwargs, named, cleanup


def _first_unwritable(v, encoder):
    """Type name of the innermost value that json.dumps with the nessai encoder refuses."""
    from vlib.oracles.results_readback import type_name

    subs = list(v.values()) if isinstance(v, dict) else list(v) if isinstance(v, (list, tuple)) else []
    for x in subs:
        try:
            json.dumps(x, cls=encoder)
        except Exception:
            return _first_unwritable(x, encoder)
    return type_name(v) if not isinstance(v, type) else "class"


def _snapshot(v):
    """Structural copy: containers are copied, leaves (pools, classes, callables) are kept by reference."""
    if isinstance(v, dict):
        return {k: _snapshot(x) for k, x in v.items()}
    if isinstance(v, (list, tuple)):
        return type(v)(_snapshot(x) for x in v)
    if isinstance(v, np.ndarray):
        return v.copy()
    return v


def cmp_config(mem, back, pat, probs, counts):
    """JSON-native values (and numpy numbers/arrays, which have a JSON-native image) round-trip; anything else is a string."""
    from vlib.oracles import results_readback as rb

    def add(what, detail=""):
        key = f"C19:config:{rb.type_name(mem)}:{what}"
        if key not in [p[0] for p in probs]:
            probs.append([key, f"at {pat or '<root>'}: {str(detail)[:200]}"])

    if isinstance(mem, dict):
        if not isinstance(back, dict):
            return add("read-back-as-" + rb.type_name(back))
        if sorted(map(str, mem)) != sorted(back):
            add("key-set-differs", (sorted(map(str, mem))[:8], sorted(back)[:8]))
        for k in mem:
            if str(k) in back:
                cmp_config(mem[k], back[str(k)], f"{pat}/{k}" if pat else str(k), probs, counts)
        return
    if isinstance(mem, (list, tuple)):
        if not isinstance(back, list) or len(back) != len(mem):
            return add("read-back-as-" + rb.type_name(back), repr(back)[:80])
        for m, b in zip(mem, back):
            cmp_config(m, b, pat + "[]", probs, counts)
        return
    if isinstance(mem, np.ndarray) and mem.dtype.kind in "fiub":
        P = rb.Problems("config", with_path=False)
        rb.cmp_plain_column(mem, back, pat, rb.type_name(mem), P)
        counts["native"] += int(mem.size)
        probs += [p for p in P.as_list() if p[0] not in [q[0] for q in probs]]
        return
    if isinstance(mem, np.ndarray):
        counts["native"] += 1
        if [str(x) for x in mem.reshape(-1)] != [str(x) for x in rb._flat(back)]:
            add("value-differs", repr(back)[:80])
        return
    if isinstance(mem, np.bool_):
        counts["non_native"] += 1
        if not isinstance(back, (str, bool)):
            add("read-back-as-" + rb.type_name(back))
        return
    if mem is None or isinstance(mem, (str, bool, int, float, np.integer, np.floating)):
        counts["native"] += 1
        P = rb.Problems("config", with_path=False)
        rb.cmp_scalar(mem, back, pat, P)
        probs += [p for p in P.as_list() if p[0] not in [q[0] for q in probs]]
        return
    counts["non_native"] += 1
    counts["types"][type(mem).__name__ if not isinstance(mem, type) else "class"] = 1
    if not isinstance(back, str):
        add("not-replaced-by-a-string", repr(back)[:80])


def config_one(seed, n, workdir, counts):
    from vlib.runs import quiet_logging, reset_globals

    quiet_logging()
    reset_globals()
    import nessai.flowsampler as nf
    from nessai.flowsampler import FlowSampler
    from vlib import zoo

    rng = rng_for(seed, "C19", "config", n)
    ins = bool(rng.random() < 0.4)
    kwargs, named, cleanup = gen_kwargs(rng, ins)
    given = _snapshot(kwargs)  # nessai adds entries (n_inputs, ...) to the user's flow_config after config.json is written
    out = os.path.join(workdir, f"cfg-{n}")
    shutil.rmtree(out, ignore_errors=True)
    model = zoo.make("G2u")
    res = dict(n=n, ins=ins, n_kwargs=len(kwargs), status="accepted", problems=[], names=sorted(kwargs)[:40])
    try:
        try:
            fs = FlowSampler(model, output=out, resume=False, signal_handling=False, importance_nested_sampler=ins, **named, **kwargs)
        except Exception as e:
            tb = traceback.format_exc()
            if "in save_kwargs" not in tb:
                res["status"] = "rejected"
                res["error"] = f"{type(e).__name__}: {str(e)[:120]}"
                return res
            # the configuration writer itself raised: decide whether nessai accepts this set when nothing is written
            model.close_pool()
            model2 = zoo.make("G2u")
            orig = nf.FlowSampler.save_kwargs
            nf.FlowSampler.save_kwargs = lambda self, kw: None
            try:
                reset_globals()
                FlowSampler(model2, output=out, resume=False, signal_handling=False, importance_nested_sampler=ins, **named, **kwargs)
                accepted = True
            except Exception:
                accepted = False
            finally:
                nf.FlowSampler.save_kwargs = orig
                model2.close_pool()
            if not accepted:
                res["status"] = "rejected"
                res["error"] = f"(after writer error) {type(e).__name__}: {str(e)[:120]}"
                return res
            from nessai.utils.io import NessaiJSONEncoder
            from vlib.oracles.results_readback import type_name

            import torch

            bad, where = "?", "?"
            for k, v in {**kwargs, "eps": named.get("eps"), "torch_dtype": torch.get_default_dtype()}.items():
                try:
                    json.dumps({k: v}, cls=NessaiJSONEncoder)
                except Exception:
                    bad, where = _first_unwritable(v, NessaiJSONEncoder), k
                    break
            res["problems"].append([f"C19:config:{bad}:constructor-raises-{type(e).__name__}", f"under keyword {where}: {type(e).__name__}: {str(e)[:160]}"])
            return res
        path = os.path.join(out, "config.json")
        if not os.path.exists(path):
            res["problems"].append(["C19:config:file-not-written", str(sorted(os.listdir(out)))])
            return res
        try:
            with open(path) as f:
                back = json.load(f)
        except Exception as e:
            res["problems"].append([f"C19:config:standard-reader-raises-{type(e).__name__}", str(e)[:160]])
            return res
        counts["files_read_back"] += 1
        exp = given
        exp["eps"] = named.get("eps")
        exp["torch_dtype"] = fs.torch_dtype
        exp["importance_sampler"] = ins
        c = dict(native=0, non_native=0, types={})
        cmp_config(exp, back, "", res["problems"], c)
        counts["config_native_values_compared"] += c["native"]
        counts["config_non_serialisable_values"] += c["non_native"]
        for t in c["types"]:
            counts["types"][t] = counts["types"].get(t, 0) + 1
        res["non_native"] = c["non_native"]
    finally:
        try:
            model.close_pool()
        except Exception:
            pass
        for fn in cleanup:
            try:
                fn()
            except Exception:
                pass
        shutil.rmtree(out, ignore_errors=True)
    return res


def config_worker(case):
    os.makedirs(case["workdir"], exist_ok=True)
    counts = dict(files_read_back=0, config_native_values_compared=0, config_non_serialisable_values=0, types={})
    out = []
    for n in case["ids"]:
        try:
            out.append(config_one(case["seed"], n, case["workdir"], counts))
        except Exception as e:
            out.append(dict(n=n, ins=None, n_kwargs=0, status="error", names=[], problems=[[f"C19:check-error:{type(e).__name__}", traceback.format_exc()[-600:]]]))
    return dict(results=out, counts=counts)


# ---------------------------------------------------------------------------------------------------------------
def worker(case):
    assert_repo()
    return {"run": run_worker, "gen": gen_worker, "config": config_worker}[case["kind"]](case)


class Reporter:
    """At most `cap` witnesses per mechanism key go to chk.violation (the rest are counted)."""

    def __init__(self, chk, cap=3):
        self.chk, self.cap, self.seen = chk, cap, {}

    def report(self, key, what, case):
        self.seen[key] = self.seen.get(key, 0) + 1
        if self.seen[key] <= self.cap or (key in self.chk.known and self.chk.known[key].get("status") == "known"):
            self.chk.violation(key, what, case)


def replay(chk):
    rc = chk.replay_case
    case = rc["case"]
    seed = int(rc.get("seed", chk.seed))
    if case["kind"] == "run":
        c = dict(case, outdir=os.path.join(chk.scratch, "replay-run"), seed=seed)
        r = run_worker(c)
        r.pop("templates", None)
    elif case["kind"] == "gen":
        os.makedirs(os.path.join(chk.scratch, "replay-gen"), exist_ok=True)
        r = gen_one(seed, case["n"], case["trees"], os.path.join(chk.scratch, "replay-gen"), dict(files_read_back=0))
    else:
        os.makedirs(os.path.join(chk.scratch, "replay-cfg"), exist_ok=True)
        r = config_one(seed, case["n"], os.path.join(chk.scratch, "replay-cfg"),
                       dict(files_read_back=0, config_native_values_compared=0, config_non_serialisable_values=0, types={}))
    from vlib.common import jdump

    print(jdump(r, indent=1))
    hit = [p for p in r.get("problems", []) if p[0] == rc["key"]]
    print(f"[C19] replay: {'reproduced' if hit else 'NOT reproduced'} {rc['key']}")
    if hit:
        print(f"VIOLATION property=C19 replay={chk.args.replay}")
    raise SystemExit(1 if hit else 0)


def main():
    chk = Check("C19", "exploration")
    assert_repo()
    from vlib.farm import run_cases
    from vlib.oracles import results_templates as tp

    if chk.replay_case:
        replay(chk)
    rep = Reporter(chk)
    # ---- phase 1: real runs and config.json cases share one farm ------------------------------------------
    runs = run_cases_list(chk)
    if chk.args.only:
        runs = [c for c in runs if chk.args.only in c["name"]]
    n_cfg = 200 if chk.quick else 2000
    chunk = 10 if chk.quick else 40
    cfgs = [dict(kind="config", ids=list(range(i, min(i + chunk, n_cfg))), seed=chk.seed, workdir=os.path.join(chk.scratch, f"cfg-{i}"), _timeout=600)
            for i in range(0, n_cfg, chunk)]
    if chk.args.only:
        cfgs = []
    cases = runs + cfgs
    res = run_cases(cases, "checks.c19:worker", chk.scratch, nproc=chk.args.nproc, timeout=600)
    trees = {}
    not_reached = {}
    rejected = {}
    run_walls = []
    cfg_types = {}
    for c, r in zip(cases, res):
        if c["kind"] == "run":
            if not isinstance(r, dict) or "status" not in r:
                chk.note_inconclusive(f"run {c['name']}: {str(r)[:300]}")
                chk.evaluations += 1
                continue
            if r["status"] == "not_reached":
                not_reached[c["name"]] = r["error"]
                chk.count("runs_not_reached")
                chk.evaluations += 1
                continue
            chk.count("runs_saved")
            chk.count("files_read_back", len(r["files"]))
            chk.count("values_compared", r["values"])
            chk.merge_counters(r["counts"])
            run_walls.append(r["wall"])
            src = "ins" if c["ins"] else "std"
            for fmt, t in r["templates"].items():
                trees[src] = tp.merge(trees.get(src), t)
            chk.case_done(ident=c["name"], nontrivial=bool(r["files"]),
                          sample=dict(run=c["name"], files=len(r["files"]), values=r["values"], finalised=r.get("finalised"), wall=r["wall"]) if c["name"].endswith("default:json") else None)
            small = {k: c[k] for k in ("kind", "name", "ins", "model", "kwargs", "model_attrs", "run_kwargs", "ext")}
            for key, detail in r["problems"]:
                rep.report(key, f"run {c['name']}: {detail}", small)
        else:
            if not isinstance(r, dict) or "results" not in r:
                chk.note_inconclusive(f"config chunk {c['ids'][0]}: {str(r)[:300]}", fatal=True)
                chk.evaluations += len(c["ids"])
                continue
            cc = r["counts"]
            chk.count("config_files_read_back", cc["files_read_back"])
            chk.count("config_native_values_compared", cc["config_native_values_compared"])
            chk.count("config_non_serialisable_values", cc["config_non_serialisable_values"])
            for t, k in cc["types"].items():
                cfg_types[t] = cfg_types.get(t, 0) + k
            for x in r["results"]:
                if x["status"] == "rejected":
                    chk.count("config_sets_rejected_by_nessai")
                    rejected[x["error"].split(":")[0]] = rejected.get(x["error"].split(":")[0], 0) + 1
                    chk.evaluations += 1
                    continue
                chk.count("config_sets_accepted")
                chk.case_done(ident=("config", x["n"]), nontrivial=x["status"] == "accepted",
                              sample=dict(config_case=x["n"], ins=x["ins"], kwargs=x["names"], non_serialisable=x.get("non_native")) if x["n"] % 97 == 0 else None, max_samples=4)
                for key, detail in x["problems"]:
                    rep.report(key, f"config case #{x['n']} ({'ins' if x['ins'] else 'standard'}; {x['names']}): {detail}", dict(kind="config", n=x["n"]))
    # ---- phase 2: dictionaries generated from the harvested templates --------------------------------------
    leaves = {s: tp.describe(t) for s, t in trees.items()}
    chk.count("templates_harvested", sum(len(v) for v in leaves.values()))
    unreproducible = {s: tp.objects_in(t) for s, t in trees.items() if tp.objects_in(t)}
    if trees and not chk.args.only:
        n_gen = 1500 if chk.quick else 30000
        chunk = 50 if chk.quick else 500
        gcases = [dict(kind="gen", ids=list(range(i, min(i + chunk, n_gen))), seed=chk.seed, trees=trees, workdir=os.path.join(chk.scratch, f"gen-{i}"), _timeout=600)
                  for i in range(0, n_gen, chunk)]
        gres = run_cases(gcases, "checks.c19:worker", chk.scratch, nproc=chk.args.nproc, timeout=600)
        types = {}
        for c, r in zip(gcases, gres):
            if not isinstance(r, dict) or "results" not in r:
                chk.note_inconclusive(f"generated chunk {c['ids'][0]}: {str(r)[:300]}", fatal=True)
                chk.evaluations += len(c["ids"])
                continue
            chk.count("generated_files_read_back", r["counts"]["files_read_back"])
            for x in r["results"]:
                chk.count("generated_dictionaries")
                chk.count("generated_values_compared", x["values"])
                for t, k in x["types"].items():
                    types[t] = types.get(t, 0) + k
                chk.case_done(ident=("gen", x["n"]), nontrivial=x["values"] > 0,
                              sample=dict(generated=x["n"], source=x["source"], keys=x["keys"], values=x["values"], types=x["types"]) if x["n"] % 499 == 0 else None, max_samples=8)
                for key, detail in x["problems"]:
                    rep.report(key, f"generated dictionary #{x['n']} (templates of the {x['source']} sampler): {detail}",
                               dict(kind="gen", n=x["n"], trees={x["source"]: trees[x["source"]]} if x["source"] in trees else trees))
        chk.extra["generated_value_types"] = types
    chk.extra["not_reached"] = not_reached
    chk.extra["config_rejections_by_exception"] = rejected
    chk.extra["config_non_serialisable_types_seen"] = cfg_types
    chk.extra["templates"] = leaves
    chk.extra["harvested_types_that_cannot_be_generated"] = unreproducible
    chk.extra["witnesses_per_key"] = rep.seen
    chk.extra["run_wall_s"] = dict(n=len(run_walls), max=max(run_walls) if run_walls else None)
    required = ["files_read_back", "values_compared"]
    if not chk.args.only:
        required += ["templates_harvested", "generated_files_read_back", "generated_values_compared", "config_files_read_back",
                     "config_native_values_compared", "config_non_serialisable_values"]
    chk.finish("real runs: both samplers x result_extension json/hdf5/h5; the run's own result file plus save_results for 3 extensions x 3 filename spellings, each read with "
               "json.load / a recursive h5py walk ('__none__' -> None) and compared with get_result_dictionary()+posterior samples: same key set at every level, ints as ints, "
               "floats as floats with equal value (NaN=NaN, signed zero, longdouble compared as longdouble), arrays with equal shape (and dtype in HDF5), structured arrays "
               "column by column (JSON rows positional, posterior_samples by field name), lists element-wise. generated: dictionaries built from the (path, type, dtype, "
               "dimensionality, None-ness) templates harvested from the dictionaries the writers were given in those runs, with NaN/inf/-0.0/subnormal/1e308 values, "
               "empty and length-1 containers, extra-precision longdoubles, int64 extremes and deeper nesting, written by save_to_json and save_dict_to_hdf5. config: "
               "FlowSampler constructed (not run) with generated accepted kwargs holding classes, pools, callbacks, functions, numpy scalars/arrays, nested dicts, None; "
               "config.json must load with json.load, JSON-native values equal, everything else a string. A case is non-trivial when a written file was read back and compared.",
               require_observed=required)


if __name__ == "__main__":
    main()
