"""C17 — INS level thresholds honour min_samples, min_remove and max_samples (clamping oracle from the property text)."""
import os
import shutil

import numpy as np

from vlib.common import Check, assert_repo, rng_for
from vlib.runhelp import run_matrix

WCLASSES = ["equal", "one_dominant", "heavy_tailed", "some_ninf", "smooth", "increasing"]


def gen_case(seed, n):
    rng = rng_for(seed, "C17", n)
    size = int(rng.choice([1, 2, 3, 5, 10, 50, int(rng.integers(2, 400)), int(rng.integers(400, 5000))]))
    wc = WCLASSES[n % len(WCLASSES)]
    if wc == "equal":
        logW = np.zeros(size)
    elif wc == "one_dominant":
        logW = rng.normal(-10, 0.3, size)
        logW[int(rng.integers(size))] = 0.0
    elif wc == "heavy_tailed":
        logW = -rng.pareto(1.2, size)
    elif wc == "some_ninf":
        logW = rng.normal(0, 1, size)
        if size > 1:
            logW[rng.choice(size, int(rng.integers(1, size)), replace=False)] = -np.inf
    elif wc == "smooth":
        logW = rng.normal(0, 2, size)
    else:
        logW = np.sort(rng.normal(0, 2, size))
    logL = np.sort(rng.normal(0, 5, size))
    ties = rng.random() < 0.4
    if ties:
        logL = np.sort(np.round(logL / 2) * 2)
    method = ["entropy", "quantile"][(n // len(WCLASSES)) % 2]
    kw = {}
    if method == "quantile":
        kw["q"] = float(rng.choice([0.05, 0.3, 0.5, 0.8, 0.95, rng.uniform(0.01, 0.99)]))
        kw["include_likelihood"] = bool(rng.random() < 0.3)
    else:
        kw["q"] = float(rng.choice([0.1, 0.5, 0.9, rng.uniform(0.01, 0.99)]))
        kw["include_likelihood"] = bool(rng.random() < 0.3)
        kw["use_log_weights"] = bool(rng.random() < 0.6)
    min_samples = int(rng.choice([1, 2, 10, 100, 500, int(rng.integers(1, max(2, 2 * size)))]))
    min_remove = int(rng.choice([1, 1, 2, 10, int(rng.integers(1, max(2, size)))]))
    nlive = int(rng.choice([10, 100, 1000, max(1, size // 2)]))
    draw_constant = bool(rng.random() < 0.7)
    max_samples = None
    if rng.random() < 0.5:
        max_samples = int(min_samples + nlive + rng.integers(0, max(1, size)))
    return dict(n=n, size=size, wclass=wc, logW=logW, logL=logL, ties=ties, method=method, kwargs=kw, min_samples=min_samples, min_remove=min_remove, nlive=nlive,
                draw_constant=draw_constant, max_samples=max_samples)


def in_domain(c):
    if c["min_remove"] >= c["size"]:
        return "min_remove >= size"
    if c["max_samples"] is not None and c["max_samples"] < c["min_samples"] + c["nlive"]:
        return "max_samples < min_samples + nlive"
    if not np.any(np.isfinite(c["logW"])):
        return "all weights -inf"
    if c["method"] == "quantile" and c["kwargs"].get("include_likelihood") is False and not np.all(np.isfinite(c["logW"])) and False:
        return "x"
    return None


def oracle_index(c, n0):
    size = c["size"]
    n = n0 if n0 > 0 else 1                      # the method's choice, at least one sample (min_remove >= 1)
    if size - n < c["min_samples"]:
        n = max(0, size - c["min_samples"])      # keep exactly min(size, min_samples)
        kind = "min_samples"
    elif n < c["min_remove"]:
        n = c["min_remove"]
        kind = "min_remove"
    else:
        kind = "method"
    if c["draw_constant"] and c["max_samples"] and (size - n) + c["nlive"] > c["max_samples"]:
        n = size - c["max_samples"] + c["nlive"]
        kind = "max_samples"
    return n, kind


def make_sampler(scratch):
    from vlib.runs import quiet_logging, reset_globals
    from vlib import zoo
    from nessai.samplers.importancesampler import ImportanceNestedSampler

    quiet_logging()
    reset_globals()
    out = os.path.join(scratch, f"c17-{os.getpid()}")
    ns = ImportanceNestedSampler(zoo.make("G2u"), nlive=100, min_samples=10, output=out, plot=False, checkpointing=False, seed=1)
    return ns, out


def check_case(ns, c, captured):
    from nessai.livepoint import get_dtype

    probs = []
    s = np.zeros(c["size"], dtype=get_dtype(["x0", "x1"]))
    s["logL"], s["logW"] = c["logL"], c["logW"]
    ns.min_samples, ns.min_remove, ns.max_samples, ns.nlive, ns.draw_constant = c["min_samples"], c["min_remove"], c["max_samples"], c["nlive"], c["draw_constant"]
    captured.clear()
    try:
        with np.errstate(all="ignore"):
            thr = ns.determine_log_likelihood_threshold(s, method=c["method"], **c["kwargs"])
    except Exception as e:
        return [(f"exception:{type(e).__name__}", str(e)[:120])], None
    if not captured:
        return [("method-not-called", "")], None
    n0 = captured[-1]
    n, kind = oracle_index(c, n0)
    size = c["size"]
    if not (0 <= n < size):
        return [], kind  # outside what can be indexed: excluded by the domain rules, counted by the caller
    exp = s["logL"][n]
    if not np.any(s["logL"] == thr):
        probs.append(("threshold-not-a-live-likelihood", float(thr)))
    if thr != exp:
        probs.append((f"threshold-differs-from-clamping-rule[{kind}]", dict(got=float(thr), expected=float(exp), n0=n0, n=n)))
    kept = int(np.sum(s["logL"] >= thr))
    if kind == "min_samples" and kept < min(size, c["min_samples"]):
        probs.append(("fewer-than-min_samples-kept", dict(kept=kept, min_samples=c["min_samples"], size=size)))
    if kind == "min_samples" and not c["ties"] and kept != min(size, c["min_samples"]):
        probs.append(("not-exactly-min_samples-kept", dict(kept=kept, min_samples=c["min_samples"], size=size)))
    if kind in ("method", "min_remove") and size - kept < c["min_remove"] and not c["ties"]:
        probs.append(("fewer-than-min_remove-removed", dict(removed=size - kept, min_remove=c["min_remove"])))
    if kind == "max_samples" and not c["ties"] and kept + c["nlive"] > c["max_samples"]:
        probs.append(("next-level-exceeds-max_samples", dict(kept=kept, nlive=c["nlive"], max_samples=c["max_samples"])))
    return probs, kind


def check_quantile(seed, n):
    """weighted_quantile: monotone in q, within the data range, ordinary quantile for equal weights."""
    from nessai.utils.stats import weighted_quantile

    rng = rng_for(seed, "C17q", n)
    size = int(rng.choice([2, 3, 5, 10, 100, 1000, int(rng.integers(2, 3000))]))
    vals = rng.normal(0, 3, size) if n % 3 else rng.uniform(-1, 1, size)
    if n % 5 == 0:
        vals = np.round(vals)
    wc = WCLASSES[n % len(WCLASSES)]
    if wc == "equal":
        lw = None if n % 2 else np.full(size, -3.0)
    elif wc == "one_dominant":
        lw = rng.normal(-8, 0.3, size)
        lw[int(rng.integers(size))] = 0
    elif wc == "some_ninf":
        lw = rng.normal(0, 1, size)
        lw[rng.choice(size, int(rng.integers(1, size)), replace=False)] = -np.inf
    else:
        lw = rng.normal(0, 2, size)
    qs = np.linspace(0.001, 0.999, 41)
    probs = []
    sv = np.sort(vals)
    try:
        out = np.array([float(np.asarray(weighted_quantile(vals, q, log_weights=lw)).reshape(-1)[0]) for q in qs])
    except Exception as e:
        return [(f"quantile-exception:{type(e).__name__}", str(e)[:100])]
    # the pre-sorted path (what the sampler's quantile threshold uses) and a constant added to the log-weights must give the same estimator
    try:
        order = np.argsort(vals, kind="stable")
        lw_sorted = None if lw is None else np.asarray(lw)[order]
        out_sorted = np.array([float(np.asarray(weighted_quantile(vals[order], q, log_weights=lw_sorted, values_sorted=True)).reshape(-1)[0]) for q in qs])
        shift = float(rng.choice([-7.5, 3.0, 40.0, -800.0, 800.0, -3000.0, 1.0e4]))   # log-weights that include log-likelihoods are of that size in real runs
        lw_shift = np.full(size, shift) if lw is None else np.asarray(lw) + shift
        out_shift = np.array([float(np.asarray(weighted_quantile(vals, q, log_weights=lw_shift)).reshape(-1)[0]) for q in qs])
        out_sorted_shift = np.array([float(np.asarray(weighted_quantile(vals[order], q, log_weights=lw_shift[order], values_sorted=True)).reshape(-1)[0]) for q in qs])
    except Exception as e:
        return [(f"quantile-exception:{type(e).__name__}", str(e)[:100])]
    scale = 1e-9 * max(float(sv[-1] - sv[0]), 1e-300) + 1e-12 * float(np.max(np.abs(sv)))
    ties_in_values = len(np.unique(vals)) < size   # with tied values the stable sort may order equal values (and their weights) differently: same estimator value
    for nm, other in (("pre-sorted-path", out_sorted), ("log-weights-shifted-by-a-constant", out_shift), ("pre-sorted-path-with-shifted-weights", out_sorted_shift)):
        if not np.all(np.abs(other - out) <= 1e3 * scale + 1e-9 * np.abs(out)):
            probs.append((f"quantile-differs-on-{nm}", dict(max_diff=float(np.max(np.abs(other - out))), n=size, weights=wc)))
    rngv = float(sv[-1] - sv[0])
    # the estimator is a weighted sum of the order statistics: rounding of the sum is ~ n_terms ulp of the largest magnitude (matters when all values are equal)
    tol = 1e-9 * max(rngv, 1e-300) + 1e-12 * float(np.max(np.abs(sv)))
    if np.any(np.diff(out) < -tol):
        probs.append(("quantile-not-monotone-in-q", float(np.min(np.diff(out)))))
    if out.min() < sv[0] - tol or out.max() > sv[-1] + tol:
        probs.append(("quantile-outside-data-range", (float(out.min()), float(out.max()), float(sv[0]), float(sv[-1]))))
    if lw is None or wc == "equal":
        from scipy.stats import beta as beta_dist

        for q, v in zip(qs, out):
            # Window of order statistics that carries all but 2e-9 of the Harrell-Davis Beta((n+1)q, (n+1)(1-q)) weight; every classical interpolating
            # quantile lies inside it as well (it always contains the neighbours of q*n), so the estimator is not over-specified.
            a, b = (size + 1) * q, (size + 1) * (1 - q)
            i_lo = max(0, int(np.floor(size * beta_dist.ppf(1e-9, a, b))) - 1)
            i_hi = min(size - 1, int(np.ceil(size * beta_dist.ppf(1 - 1e-9, a, b))))
            lo, hi = sv[i_lo], sv[i_hi]
            if not (lo - 1e-8 * rngv - tol <= v <= hi + 1e-8 * rngv + tol):
                probs.append(("equal-weights-quantile-not-the-ordinary-quantile", dict(q=float(q), value=float(v), lo=float(lo), hi=float(hi), n=size)))
                break
    return probs


def worker(case):
    assert_repo()
    ns, out = make_sampler(case["scratch"])
    captured = []
    oq, oe = ns.determine_threshold_quantile, ns.determine_threshold_entropy

    def wq(*a, **k):
        r = oq(*a, **k)
        captured.append(r)
        return r

    def we(*a, **k):
        r = oe(*a, **k)
        captured.append(r)
        return r

    ns.determine_threshold_quantile, ns.determine_threshold_entropy = wq, we
    res = []
    counts = dict(threshold_cases=0, excluded=0, quantile_cases=0)
    kinds = {}
    try:
        for n in case["ids"]:
            c = gen_case(case["seed"], n)
            why = in_domain(c)
            if why:
                counts["excluded"] += 1
                res.append(dict(n=n, excluded=why))
                continue
            probs, kind = check_case(ns, c, captured)
            counts["threshold_cases"] += 1
            kinds[kind] = kinds.get(kind, 0) + 1
            res.append(dict(n=n, size=c["size"], wclass=c["wclass"], method=c["method"], kind=kind, min_samples=c["min_samples"], min_remove=c["min_remove"],
                            max_samples=c["max_samples"], nlive=c["nlive"], problems=probs))
        for n in case["qids"]:
            probs = check_quantile(case["seed"], n)
            counts["quantile_cases"] += 1
            res.append(dict(n=n, quantile=True, problems=probs))
    finally:
        shutil.rmtree(out, ignore_errors=True)
    return dict(results=res, counts=counts, kinds=kinds)


def main():
    chk = Check("C17", "exploration")
    assert_repo()
    from vlib.farm import run_cases

    if chk.replay_case:
        c = chk.replay_case["case"]
        if c.get("cell"):
            run_matrix(chk, props=("C17",), sampler="ins", deciding=[], rule="")
            return
        print(worker(dict(ids=[] if c.get("quantile") else [c["n"]], qids=[c["n"]] if c.get("quantile") else [], seed=chk.replay_case["seed"], scratch=chk.scratch)))
        return
    total = 3000 if chk.quick else 100000
    qtotal = 600 if chk.quick else 20000
    nchunks = 32 if chk.quick else 128
    ids = list(range(total))
    qids = list(range(qtotal))
    cases = [dict(ids=ids[i::nchunks], qids=qids[i::nchunks], seed=chk.seed, scratch=chk.scratch) for i in range(nchunks)]
    res = run_cases(cases, "checks.c17:worker", chk.scratch, nproc=chk.args.nproc, timeout=1800)
    for c, r in zip(cases, res):
        if "results" not in r:
            chk.note_inconclusive(str(r)[:400], fatal=True)
            chk.evaluations += len(c["ids"]) + len(c["qids"])
            continue
        chk.merge_counters(r["counts"])
        for k, v in r["kinds"].items():
            chk.count(f"clamp_decided_by_{k}", v)
        for x in r["results"]:
            if x.get("excluded"):
                chk.case_done()
                chk.count("excluded_" + x["excluded"].replace(" ", "_"))
                continue
            ident = ("q", x["n"]) if x.get("quantile") else ("t", x["n"])
            chk.case_done(ident=ident, nontrivial=True, sample={k: v for k, v in x.items() if k != "problems"} if x["n"] in (3, 4) else None)
            for p in x["problems"]:
                chk.violation("C17:" + str(p[0]), f"case #{x['n']} {({k: v for k, v in x.items() if k != 'problems'})}: {p}", dict(n=x["n"], quantile=bool(x.get("quantile"))))
    # ---- in situ: every iteration of real INS runs (threshold is a live likelihood, min_samples floor on the training set)
    run_matrix(chk, props=("C17",), sampler="ins", timeout=240, finish=False, deciding=["C17.insitu_threshold_checks"], rule="",
               names=["ins-default", "ins-min-samples", "ins-max-samples", "ins-quantile", "ins-entropy-q", "ins-replace-all", "ins-draw-variable", "ins-strict", "ins-no-iid", "ins-zero-likelihood-region-min-samples", "ins-zero-likelihood-region-strict", "ins-no-iid-max-samples-below-floor", "ins-no-iid-n-update-below-floor"] if chk.quick else None)
    chk.extra["excluded_by_precondition"] = ["min_remove >= size (index past the end)", "max_samples < min_samples + nlive (cannot all be honoured)", "all weights -inf"]
    chk.finish("generated live sets (sizes 1..5000, 6 weight classes incl. -inf entries, tied likelihoods) x both threshold methods with random q / include_likelihood / "
               "use_log_weights x min_samples, min_remove, max_samples, nlive, draw_constant on a real un-run ImportanceNestedSampler; the method's own cut is captured by a "
               "wrapper and the clamped index is recomputed from the property text; weighted_quantile is checked on a 41-point q grid; plus the in-situ monitor on every "
               "iteration of real INS runs. Every generated in-domain case is non-trivial; distinct by case number.",
               require_observed=["threshold_cases", "quantile_cases", "C17.insitu_threshold_checks", "C17.insitu_training_set_checks"])


if __name__ == "__main__":
    main()
