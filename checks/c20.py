"""C20 — every algorithmic option runs to completion or is rejected up front (bounded subprocess per option value / covering-array row)."""
import json
import os
import subprocess

from vlib.common import Check, assert_repo, rng_for, ROOT

CONFIG_ERRORS = ("ValueError", "TypeError", "RuntimeError", "KeyError", "NotImplementedError", "OneDimensionalModelError")


# option cases that exercise the same option value (mechanism) share one key
ALIAS = {"redraw": "redraw_samples=True", "redraw_n": "redraw_samples=True", "redraw_initial": "redraw_samples=True", "prop_aug_zeros": "prop_aug", "prop_auggw": "prop_aug",
         "max_uninf_false": "max_uninf_0"}
# combinations with the experimental ClusteringFlowProposal: the same mechanism whichever spelling of the partner option a random row contains
for _c in ("prop_clust", "prop_clust_k"):
    for _l in ("lat_nball", "lat_nsphere", "lat_nball_cv"):
        ALIAS["+".join(sorted([_c, _l]))] = "clust_lat_nball"
    ALIAS["+".join(sorted([_c, "flow_mlp"]))] = "clust_flow_mlp"
    for _p in ("plot_min", "plot_all", "run_plots"):
        ALIAS["+".join(sorted([_c, _p]))] = "clust_plots"
    for _n in ("nlive_small", "nlive_small_plots", "nlive_small_plot_all", "nlive_10"):
        ALIAS["+".join(sorted([_c, _n]))] = "clust_nlive_small"


def load_options():
    return json.load(open(os.path.join(ROOT, "vlib", "data", "options.json")))


def worker(case):
    """In-process in a long-lived farm worker (the farm's wall-clock watchdog kills and restarts the worker); --own-process style via subprocess for replays."""
    assert_repo()
    cfg = {k: case[k] for k in ("sampler", "name", "kwargs", "run_kwargs", "outdir", "dims", "seed", "watchdog")}
    if not case.get("own_process"):
        from vlib.option_run import run_option

        return run_option(cfg, in_farm=True)
    try:
        p = subprocess.run(["/venv/bin/python", "-m", "vlib.option_run", json.dumps(cfg)], capture_output=True, text=True, timeout=case["watchdog"] + 60, cwd=ROOT)
    except subprocess.TimeoutExpired:
        return dict(status="WATCHDOG", where=["parent timeout"], name=case["name"])
    for line in p.stdout.splitlines():
        if line.startswith("RES "):
            return json.loads(line[4:])
    return dict(status="DIED", rc=p.returncode, stderr=p.stderr[-800:], name=case["name"])


def merge(a, b):
    """Merge two option kwargs dicts; returns None on conflicting keys."""
    out = dict(a)
    for k, v in b.items():
        if k in out:
            if isinstance(v, dict) and isinstance(out[k], dict) and not (set(v) & set(out[k])):
                out[k] = {**out[k], **v}
            elif out[k] != v:
                return None
        else:
            out[k] = v
    return out


def judge(r):
    """Returns (verdict, key_suffix, detail): verdict in held/rejected/violation/inconclusive."""
    st = r.get("status")
    if st == "OK":
        if r.get("result_problems"):
            p = r["result_problems"][0]
            return "violation", f"result-invariant:{p[1]}", str(p[2])[:200]
        if not r.get("finite", True):
            return "violation", "non-finite-result", dict(logZ=r.get("logZ"), err=r.get("err"))
        return "held", None, None
    if st == "FAIL":
        if r.get("points", 0) == 0 and r["exc"] in CONFIG_ERRORS:
            return "rejected", None, f"{r['exc']}@{r['at']}: {r['msg']}"
        return "violation", f"{r['exc']}@{r['at']}", f"after {r.get('points')} likelihood points, iteration {r.get('it')}: {r['msg']}"
    if st == "BUDGET":
        return "violation", f"budget:{r['which']}", r.get("msg")
    if st == "WATCHDOG":
        return "inconclusive", None, f"wall-clock watchdog without budget overrun at {r.get('where')}"
    return "inconclusive", None, str(r)[:300]


def main():
    chk = Check("C20", "exploration")
    assert_repo()
    from vlib.farm import run_cases

    opts = load_options()
    cases = []
    seeds = [1] if chk.quick else [1, 2]
    for sampler in ("std", "ins"):
        for name, kw, rkw in opts[sampler]:
            for sd in seeds:
                dims = kw.get("_dims", 2)
                cases.append(dict(sampler=sampler, name=name, members=[name], kwargs=kw, run_kwargs=rkw, dims=dims, seed=int(rng_for(chk.seed, "C20", sampler, name, sd).integers(1, 2**31 - 1)),
                                  outdir=os.path.join(chk.scratch, f"{sampler}-{name}-{sd}"), watchdog=150, _timeout=240))
                if sampler == "ins" and "max_iteration" in kw and kw["max_iteration"] is None:
                    cases[-1].update(watchdog=600, _timeout=700)    # uncapped: decided by the 30-iteration budget, which needs more wall time on a loaded machine
    if not chk.quick:
        # covering-array style rows: random compatible pairs/triples so that every pair of option cases of a sampler appears with high probability
        for sampler, nrows in (("std", 420), ("ins", 180)):
            # (cases that already are combinations of two options are run on their own only)
            tab = [o for o in opts[sampler] if not o[0].endswith("_bad") and o[0] not in ("unknown_kw", "crit_len_mismatch", "crit_check_bad", "base")
                   and not o[0].startswith(("clust_", "uncapped_"))]
            rng = rng_for(chk.seed, "C20rows", sampler)
            made = 0
            tries = 0
            while made < nrows and tries < nrows * 20:
                tries += 1
                k = int(rng.choice([2, 2, 3]))
                pick = [tab[int(i)] for i in rng.choice(len(tab), k, replace=False)]
                kw, rkw = {}, {}
                for n_, k_, r_ in pick:
                    kw = merge(kw, k_) if kw is not None else None
                    rkw = merge(rkw, r_) if rkw is not None else None
                if kw is None or rkw is None:
                    continue
                name = "+".join(sorted(p[0] for p in pick))
                cases.append(dict(sampler=sampler, name=name, members=sorted(p[0] for p in pick), kwargs=kw, run_kwargs=rkw, dims=int(rng.choice([2, 3])) if "_dims" not in kw else kw["_dims"],
                                  seed=int(rng.integers(1, 2**31 - 1)), outdir=os.path.join(chk.scratch, f"{sampler}-row-{made}"), watchdog=200, _timeout=300))
                made += 1
    if chk.replay_case:
        c = dict(chk.replay_case["case"])
        c["outdir"] = os.path.join(chk.scratch, "replay")
        c.setdefault("watchdog", 150)
        c["own_process"] = True
        r = worker(c)
        print(r)
        print(judge(r))
        return
    if chk.args.only:
        cases = [c for c in cases if chk.args.only in c["name"]]
    res = run_cases(cases, "checks.c20:worker", chk.scratch, nproc=chk.args.nproc, timeout=200)
    res = [dict(status="WATCHDOG", where=[(r.get("_log_tail") or "")[-400:]], name=c["name"]) if (r.get("_watchdog") or "_died" in r or r.get("_error")) else r for c, r in zip(cases, res)]
    # ---- failing combinations are reduced to their smallest failing sub-combination (pairs of a triple are re-run), so that the key names the options that
    # interact, not a generic "combination" and not the random row
    opt_by_name = {(smp, o[0]): o for smp in ("std", "ins") for o in opts[smp]}
    single_v = {(c["sampler"], c["name"]): judge(r) for c, r in zip(cases, res) if len(c["members"]) == 1}
    sub_cases = []
    for c, r in zip(cases, res):
        if len(c["members"]) == 3 and judge(r)[0] == "violation":
            key = judge(r)[1]
            if any(single_v.get((c["sampler"], m), (None, None))[1] == key for m in c["members"]):
                continue
            import itertools

            for pair in itertools.combinations(c["members"], 2):
                kw, rkw = {}, {}
                for m in pair:
                    _, k_, r_ = opt_by_name[(c["sampler"], m)]
                    kw = merge(kw, k_) if kw is not None else None
                    rkw = merge(rkw, r_) if rkw is not None else None
                if kw is None or rkw is None:
                    continue
                sub_cases.append(dict(sampler=c["sampler"], name="+".join(pair), members=list(pair), kwargs=kw, run_kwargs=rkw, dims=c["dims"], seed=c["seed"], parent=c["name"],
                                      outdir=os.path.join(chk.scratch, f"sub-{len(sub_cases)}"), watchdog=200, _timeout=300))
    sub_res = run_cases(sub_cases, "checks.c20:worker", chk.scratch, nproc=chk.args.nproc, timeout=200) if sub_cases else []
    reduced = {}
    for sc, sr in zip(sub_cases, sub_res):
        if sr.get("_watchdog") or "_died" in sr or sr.get("_error"):
            continue
        v, key, _ = judge(sr)
        if v == "violation":
            reduced.setdefault((sc["sampler"], sc["parent"], key), sc["members"])
    chk.count("combination_reduction_runs", len(sub_cases))
    single_fail = {}
    table = {}
    for c, r in zip(cases, res):
        if len(c["members"]) == 1:
            v, key, detail = judge(r)
            if v == "violation":
                single_fail[(c["sampler"], c["name"])] = key
    for c, r in zip(cases, res):
        small = {k: c[k] for k in ("sampler", "name", "members", "kwargs", "run_kwargs", "dims", "seed")}
        v, key, detail = judge(r)
        chk.count("runs_" + v)
        chk.count("cases_" + c["sampler"])
        table[f"{c['sampler']}:{c['name']}"] = v if v != "violation" else f"violation {key}"
        if v == "inconclusive":
            chk.note_inconclusive(f"{c['sampler']}:{c['name']}: {detail}")
            chk.case_done()
            continue
        chk.case_done(ident=(c["sampler"], c["name"], c["seed"]), nontrivial=v in ("held", "rejected", "violation"),
                      sample=dict(option=small, verdict=v, detail=detail, iterations=r.get("it"), likelihood_points=r.get("points"), logZ=r.get("logZ"), counters=r.get("counters"))
                      if c["name"] in ("base", "prop_bad", "lat_nball", "crit_multi_all") else None)
        if v == "violation":
            culprit = ALIAS.get(c["name"], c["name"])
            if len(c["members"]) > 1:
                same = [m for m in c["members"] if single_fail.get((c["sampler"], m)) == key]
                # a failure that no member shows on its own is keyed by its call site (exception type @ innermost nessai function), not by the random row
                mem = reduced.get((c["sampler"], c["name"], key), c["members"])
                culprit = ALIAS.get(same[0], same[0]) if same else ALIAS.get("+".join(sorted(mem)), "+".join(sorted(mem)))
            chk.violation(f"C20:{c['sampler']}:{culprit}:{key}", f"{c['sampler']} option case {c['name']} kwargs={c['kwargs']} run_kwargs={c['run_kwargs']}: {detail}", small)
    # ---- the fixed configuration matrices of the run-level checks are option combinations too: every one of their runs must complete.  (The other checks treat a run
    # that raises as outside their own property; this is where it is decided.)
    if not chk.args.only or chk.args.only == "matrix":
        from vlib.runhelp import run_matrix

        def post(chk_, case, res, small, error_key=None):
            if error_key:
                chk_.count("matrix_runs_raising")
                chk_.violation(f"C20:matrix:{case['cell']}:{error_key}", f"configuration cell {case['name']} ({case['model']}, {case['kwargs']}) raised after "
                               f"{res.get('points_at_error')} likelihood points: {res['error']}", small)
                return True
            chk_.count("matrix_runs_completed")
            return False

        saved_only, chk.args.only = chk.args.only, None
        for sampler in ("standard", "ins"):
            run_matrix(chk, props=("C20",), post=post, deciding=[], rule="", sampler=sampler, finish=False)
        chk.args.only = saved_only
    chk.extra["verdict_table"] = dict(sorted(table.items())) if chk.quick else {k: v for k, v in sorted(table.items()) if v != "held"}
    chk.extra["budgets"] = "per run: latent batches per population 1500 (nominal <= 100), INS draw batches per draw 500 (nominal 1-2), standard iterations 80 x nlive (nominal 5-8 x nlive), " \
                           "INS iterations 60 (nominal 3-10; most runs carry a 40-iteration cap), 30 for the runs without a cap (nominal 3-4; wall-clock watchdog 600 s), likelihood points 4e5 (nominal 1.5e3); wall-clock watchdog 150 s (nominal 2-6 s)"
    chk.assumptions += ["'rejected up front' = a configuration-type exception raised while zero sampler-attributed likelihood points had been evaluated",
                        "bounded progress replaces 'never loops forever': a budget overrun is a violation, a watchdog without overrun is inconclusive"]
    chk.finish("every option value of the standard (144) and importance (71) option tables on its own (thorough: 2 seeds, plus ~600 random compatible pair/triple rows on 2- and "
               "3-parameter models) runs through FlowSampler(...).run(save=True) in its own bounded subprocess with logical step budgets; the outcome must be a configuration "
               "error before any sampler likelihood call, or a clean finish whose results satisfy the C05 oracle and are finite. Non-trivial = run that reached a verdict; "
               "distinct by (sampler, option case, seed). Plus every cell of the standard and importance configuration matrices of the run-level checks (a run that raises there is "
               "reported here).", require_observed=["runs_held", "runs_rejected", "cases_std", "cases_ins", "matrix_runs_completed"] if not chk.args.only else ["runs_held"])


if __name__ == "__main__":
    main()
