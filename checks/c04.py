"""C04 — the INS sample store stays sorted, partitioned and aligned under all updates.

Reference-model monitor: a list model [(uid, logL, live?)] is stepped beside the real OrderedSamples; every sample
carries a unique id in a parameter field, a payload derived from the id, and id-coded log_q rows, so loss,
duplication, modification and misalignment are read off directly.  Compared after *every* call.
Workload: (a) exhaustive bounded enumeration per mode (DFS over init . (thr . [rm] . add)^k . [finalise]);
(b) long random histories with large batches and forced ties.
"""
import copy
import itertools

import numpy as np

from vlib.common import Check, assert_repo, rng_for

NAMES = ["uid", "pay"]


def setup_fields():
    from nessai.livepoint import add_extra_parameters_to_live_points, reset_extra_live_points_parameters

    reset_extra_live_points_parameters()
    add_extra_parameters_to_live_points(["logW", "logQ", "logU"])


class UID:
    def __init__(self):
        self.n = 0

    def take(self, k):
        r = np.arange(self.n + 1, self.n + 1 + k)
        self.n += k
        return r


def make_batch(Ls, uids, ncol=2):
    from nessai.livepoint import get_dtype

    a = np.zeros(len(Ls), dtype=get_dtype(NAMES))
    a["uid"] = uids
    a["pay"] = np.sin(uids.astype(float)) * 1000.0
    a["logL"] = Ls
    a["logW"] = -0.5 * uids
    a["it"] = uids % 7
    lq = (uids[:, None] * 100 + np.arange(ncol)[None, :]).astype(float)
    return a, lq


def compare(os_, ids, Ls, live, strict_thr=None):
    """Full comparison of the store with the model arrays (ids, Ls, live flags). Returns list of problem tags."""
    errs = []
    S = os_.samples
    if len(S) != len(ids):
        return [f"size {len(S)} vs {len(ids)}"]
    if np.any(np.diff(S["logL"]) < 0):
        errs.append("unsorted")
    sid = S["uid"].astype(np.int64)
    order = np.argsort(sid, kind="stable")
    mo = np.argsort(ids, kind="stable")
    if not np.array_equal(sid[order], ids[mo]):
        errs.append("ids lost or duplicated")
        return errs
    if not np.array_equal(S["logL"][order], Ls[mo]):
        errs.append("logL of a stored sample changed")
    if not (np.array_equal(S["pay"], np.sin(sid.astype(float)) * 1000.0) and np.array_equal(S["logW"], -0.5 * sid) and np.array_equal(S["it"], sid % 7)):
        errs.append("payload modified")
    lq = os_.log_q
    if lq.shape[0] != len(S) or not np.array_equal(lq, sid[:, None] * 100.0 + np.arange(lq.shape[1])[None, :]):
        errs.append("log_q row detached from its sample")
    ns = os_.nested_samples_indices
    lp = os_.live_points_indices
    lp = np.empty(0, dtype=int) if lp is None else np.asarray(lp)
    if np.any(np.diff(ns) <= 0):
        errs.append("nested indices not strictly increasing")
    if np.any(np.diff(lp) <= 0):
        errs.append("live indices not strictly increasing")
    allidx = np.sort(np.concatenate([ns, lp]))
    if not np.array_equal(allidx, np.arange(len(S))):
        errs.append("index sets do not partition the store")
        return errs
    live_ids = np.sort(sid[lp])
    if not np.array_equal(live_ids, np.sort(ids[live])):
        errs.append("live set differs from model")
    if os_.live_points_indices is not None and os_.live_points is not None:
        if not np.array_equal(os_.live_points["uid"], S["uid"][lp]):
            errs.append("live_points property")
    if not np.array_equal(os_.nested_samples["uid"], S["uid"][ns]):
        errs.append("nested_samples property")
    if strict_thr is not None:
        if not np.array_equal(np.sort(sid[lp]), np.sort(sid[S["logL"] >= strict_thr])):
            errs.append("strict live set != samples at or above threshold")
    return errs


class Model:
    """List-based reference of the store semantics stated by the property."""

    def __init__(self, strict, rall):
        self.strict, self.rall = strict, rall
        self.ids = np.empty(0, dtype=np.int64)
        self.Ls = np.empty(0)
        self.live = np.empty(0, dtype=bool)
        self.thr = None

    def copy(self):
        m = Model(self.strict, self.rall)
        m.ids, m.Ls, m.live, m.thr = self.ids.copy(), self.Ls.copy(), self.live.copy(), self.thr
        return m

    def add(self, ids, Ls, initial=False):
        self.ids = np.concatenate([self.ids, ids])
        self.Ls = np.concatenate([self.Ls, Ls])
        self.live = np.concatenate([self.live, np.ones(len(ids), dtype=bool)])
        if self.strict and not initial:
            self.live = self.Ls >= self.thr

    def remove(self):
        if self.rall:
            n = int(self.live.sum())
            self.live[:] = False
        else:
            sel = self.live & (self.Ls < self.thr)
            n = int(sel.sum())
            self.live[sel] = False
        return n

    def finalise(self):
        self.live[:] = False


def classify(tag, os_before_live_max, thr, op):
    """Mechanism key for a discrepancy. D4: threshold above every live sample makes argmax(all False) == 0."""
    if thr is not None and os_before_live_max is not None and thr > os_before_live_max:
        return "C04:threshold-above-every-live-sample"
    return "C04:" + tag.split(" vs ")[0].split(" ")[0] + ":" + op


def apply_op(os_, m, op, uid):
    """Apply one op to the real store and to the model; return (problems, key_context)."""
    kind = op[0]
    live_before = os_.live_points if os_.samples is not None else None
    live_max = float(np.max(live_before["logL"])) if live_before is not None and len(live_before) else None
    all_max = float(np.max(os_.samples["logL"])) if os_.samples is not None and len(os_.samples) else None
    probs = []
    ctx_thr = m.thr
    strict_thr = None
    if kind == "init":
        Ls = np.asarray(op[1], dtype=float)
        ids = uid.take(len(Ls))
        a, lq = make_batch(Ls, ids)
        os_.add_initial_samples(a, lq)
        m.add(ids, Ls, initial=True)
        ref_max = None
    elif kind == "thr":
        os_.update_log_likelihood_threshold(op[1])
        m.thr = op[1]
        ref_max = None
    elif kind == "rm":
        n = os_.remove_samples()
        exp = m.remove()
        ref_max = live_max
        if int(n) != exp:
            probs.append(f"removed-count {int(n)} vs {exp}")
    elif kind == "add":
        Ls = np.asarray(op[1], dtype=float)
        ids = uid.take(len(Ls))
        a, lq = make_batch(Ls, ids)
        os_.add_samples(a, lq)
        m.add(ids, Ls)
        ref_max = max(all_max, float(np.max(Ls))) if (m.strict and all_max is not None) else None
        if m.strict:
            strict_thr = m.thr
    elif kind == "fin":
        os_.finalise()
        m.finalise()
        ref_max = None
    probs += compare(os_, m.ids, m.Ls, m.live, strict_thr)
    keys = [classify(p, ref_max, ctx_thr if kind != "thr" else None, kind) for p in probs]
    return probs, keys


def multisets(alphabet, maxsize):
    out = []
    for k in range(1, maxsize + 1):
        out += [list(c) for c in itertools.combinations_with_replacement(alphabet, k)]
    return out


def dfs(os_, m, uid, depth, kmax, batches, thrs, seq, stats, found, allow_skip_rm):
    """Enumerate every continuation (thr . [rm] . add) up to kmax steps, sharing prefixes by copying the state."""
    for t in thrs:
        for do_rm in ((True, False) if allow_skip_rm else (True,)):
            if not do_rm and os_.live_points_indices is None:
                continue
            for b in batches:
                o2, m2 = copy_store(os_), m.copy()
                u2 = UID()
                u2.n = uid.n
                s2 = seq + [("thr", t)] + ([("rm",)] if do_rm else []) + [("add", b)]
                ok = True
                for op in s2[len(seq):]:
                    if op[0] == "rm" and o2.live_points_indices is None:
                        ok = False  # API precondition: cannot remove twice in replace-all mode
                        break
                    try:
                        probs, keys = apply_op(o2, m2, op, u2)
                    except Exception as e:
                        probs, keys = [f"exception {type(e).__name__}: {e}"], ["C04:exception:" + type(e).__name__ + ":" + op[0]]
                    stats["ops"] += 1
                    if probs:
                        for p, k in zip(probs, keys):
                            found.setdefault(k, []).append((s2, op, p))
                        ok = False
                        break
                if not ok:
                    stats["sequences"] += 1
                    continue
                stats["sequences"] += 1
                if depth + 1 < kmax:
                    dfs(o2, m2, u2, depth + 1, kmax, batches, thrs, s2, stats, found, allow_skip_rm)
                else:
                    # optional finalise at the end of every maximal sequence
                    o3, m3 = copy_store(o2), m2.copy()
                    if o3.live_points_indices is not None:
                        try:
                            probs, keys = apply_op(o3, m3, ("fin",), u2)
                        except Exception as e:
                            probs, keys = [f"exception {type(e).__name__}: {e}"], ["C04:exception:" + type(e).__name__ + ":fin"]
                        stats["ops"] += 1
                        for p, k in zip(probs, keys):
                            found.setdefault(k, []).append((s2 + [("fin",)], ("fin",), p))


def copy_store(os_):
    o = copy.copy(os_)
    for k in ("samples", "log_q", "live_points_indices", "nested_samples_indices"):
        v = getattr(os_, k)
        if v is not None:
            setattr(o, k, v.copy())
    return o


def exhaustive_worker(case):
    assert_repo()
    setup_fields()
    from nessai.samplers.importancesampler import OrderedSamples

    strict, rall = case["strict"], case["rall"]
    alphabet = [float(v) for v in range(case["alphabet"])]
    batches = multisets(alphabet, case["batch"])
    thrs = [-1.0] + alphabet + [float(case["alphabet"])]
    stats = dict(ops=0, sequences=0)
    found = {}
    for init in case["inits"]:
        os_ = OrderedSamples(strict_threshold=strict, replace_all=rall)
        m = Model(strict, rall)
        uid = UID()
        probs, keys = apply_op(os_, m, ("init", init), uid)
        stats["ops"] += 1
        for p, k in zip(probs, keys):
            found.setdefault(k, []).append(([("init", init)], ("init", init), p))
        # first step is fixed by the shard (keeps shards balanced)
        for first in case["firsts"]:
            t, do_rm, b = first
            o2, m2 = copy_store(os_), m.copy()
            u2 = UID()
            u2.n = uid.n
            s2 = [("init", init), ("thr", t)] + ([("rm",)] if do_rm else []) + [("add", b)]
            ok = True
            for op in s2[1:]:
                try:
                    probs, keys = apply_op(o2, m2, op, u2)
                except Exception as e:
                    probs, keys = [f"exception {type(e).__name__}: {e}"], ["C04:exception:" + type(e).__name__ + ":" + op[0]]
                stats["ops"] += 1
                if probs:
                    for p, k in zip(probs, keys):
                        found.setdefault(k, []).append((s2, op, p))
                    ok = False
                    break
            stats["sequences"] += 1
            if ok and case["kmax"] > 1:
                dfs(o2, m2, u2, 1, case["kmax"], batches, thrs, s2, stats, found, True)
    return dict(stats=stats, found={k: dict(count=len(v), example=v[0]) for k, v in found.items()})


def random_worker(case):
    assert_repo()
    setup_fields()
    from nessai.samplers.importancesampler import OrderedSamples

    rng = rng_for(case["seed"], "C04rand", case["idx"])
    strict, rall = bool(case["idx"] & 1), bool(case["idx"] & 2)
    os_ = OrderedSamples(strict_threshold=strict, replace_all=rall)
    m = Model(strict, rall)
    uid = UID()
    found = {}
    nops = 0

    def batch():
        n = int(rng.choice([1, 2, 5, 50, int(rng.integers(1, case["maxbatch"]))]))
        L = rng.normal(0, 3, n)
        if len(m.Ls) and rng.random() < 0.6:  # forced ties with stored values
            k = max(1, n // 10)
            L[rng.choice(n, k)] = rng.choice(m.Ls, k)
        if rng.random() < 0.3:
            L = np.round(L)
        return L

    seq_log = []

    def do(op):
        nonlocal nops
        try:
            probs, keys = apply_op(os_, m, op, uid)
        except Exception as e:
            probs, keys = [f"exception {type(e).__name__}: {e}"], ["C04:exception:" + type(e).__name__ + ":" + op[0]]
        nops += 1
        seq_log.append((op[0], (len(op[1]) if op[0] in ("init", "add") else (op[1] if len(op) > 1 else None))))
        for p, k in zip(probs, keys):
            found.setdefault(k, []).append((seq_log[-6:], p))
        return not probs

    ok = do(("init", batch()))
    steps = 0
    while ok and steps < case["steps"]:
        steps += 1
        r = rng.random()
        if r < 0.7 and os_.live_points_indices is not None and len(os_.live_points_indices):
            lv = os_.live_points["logL"]
            thr = float(lv[int(rng.integers(len(lv)))])  # a live likelihood, as the sampler chooses it
        elif r < 0.85:
            thr = float(rng.normal(0, 3))
        elif r < 0.93:
            thr = float(np.max(m.Ls)) + 1.0
        else:
            thr = float(np.min(m.Ls)) - 1.0
        ok = do(("thr", thr))
        if ok and os_.live_points_indices is not None and (rall or rng.random() < 0.85):
            ok = do(("rm",))
        if ok:
            ok = do(("add", batch()))
    if ok and os_.live_points_indices is not None:
        do(("fin",))
    return dict(ops=nops, final_size=int(len(m.ids)), strict=strict, rall=rall,
                found={k: dict(count=len(v), example=v[0]) for k, v in found.items()})


def main():
    chk = Check("C04", "exploration")
    chk.max_inconclusive = 0    # deterministic component-level cases: an undecided chunk makes the whole check inconclusive
    assert_repo()
    from vlib.farm import run_cases

    if chk.replay_case:
        c = chk.replay_case["case"]
        if "idx" in c:
            print(random_worker(c))
        else:
            print(exhaustive_worker(c))
        return
    # ---- (a) exhaustive
    if chk.quick:
        configs = [dict(alphabet=3, batch=2, init=3, kmax=2)]
    else:
        configs = [dict(alphabet=3, batch=2, init=2, kmax=3), dict(alphabet=4, batch=3, init=3, kmax=2)]
    cases = []
    for cfg in configs:
        alphabet = [float(v) for v in range(cfg["alphabet"])]
        inits = multisets(alphabet, cfg["init"])
        batches = multisets(alphabet, cfg["batch"])
        thrs = [-1.0] + alphabet + [float(cfg["alphabet"])]
        firsts = [(t, r, b) for t in thrs for r in (True, False) for b in batches]
        for strict in (False, True):
            for rall in (False, True):
                # shard over first steps
                nsh = 8 if chk.quick else 48
                for k in range(nsh):
                    cases.append(dict(strict=strict, rall=rall, alphabet=cfg["alphabet"], batch=cfg["batch"], kmax=cfg["kmax"],
                                      inits=inits, firsts=firsts[k::nsh], _timeout=7200))
    res = run_cases(cases, "checks.c04:exhaustive_worker", chk.scratch, nproc=chk.args.nproc, timeout=7200)
    total_seq = 0
    for c, r in zip(cases, res):
        if "stats" not in r:
            chk.note_inconclusive(str(r)[:300])
            chk.case_done()
            continue
        total_seq += r["stats"]["sequences"]
        chk.count("store_operations_compared", r["stats"]["ops"])
        chk.count("exhaustive_sequences", r["stats"]["sequences"])
        chk.case_done(ident=("exh", c["strict"], c["rall"], c["alphabet"], c["kmax"], str(c["firsts"][:1])), nontrivial=r["stats"]["sequences"] > 0,
                      sample=dict(mode=dict(strict=c["strict"], replace_all=c["rall"]), example_sequence=[("init", c["inits"][5]), ("thr", c["firsts"][0][0]), ("rm",), ("add", c["firsts"][0][2])],
                                  sequences=r["stats"]["sequences"]) if len(chk.samples) < 2 else None)
        for k, v in r["found"].items():
            seq, op, p = v["example"]
            small = {kk: c[kk] for kk in ("strict", "rall", "alphabet", "batch", "kmax")}
            small.update(inits=[seq[0][1]], firsts=[[seq[1][1], seq[2][0] == "rm", seq[3][1] if seq[2][0] == "rm" else seq[2][1]]])
            chk.violation(k, f"mode strict={c['strict']} replace_all={c['rall']}: after {op} in sequence {seq}: {p} ({v['count']} sequences)", small)
    # ---- (b) long random histories
    nrand = 32 if chk.quick else 256
    rc = [dict(idx=i, seed=chk.seed, steps=60 if chk.quick else 330, maxbatch=1500 if chk.quick else 5000, _timeout=3600) for i in range(nrand)]
    res = run_cases(rc, "checks.c04:random_worker", chk.scratch, nproc=chk.args.nproc, timeout=3600)
    for c, r in zip(rc, res):
        if "ops" not in r:
            chk.note_inconclusive(str(r)[:300])
            chk.case_done()
            continue
        chk.count("store_operations_compared", r["ops"])
        chk.count("random_history_operations", r["ops"])
        chk.case_done(ident=("rand", c["idx"]), nontrivial=r["ops"] > 3,
                      sample=dict(kind="random history", strict=r["strict"], replace_all=r["rall"], operations=r["ops"], final_store_size=r["final_size"]) if c["idx"] < 2 else None)
        for k, v in r["found"].items():
            chk.violation(k, f"random history #{c['idx']} strict={r['strict']} replace_all={r['rall']}: {v['example']}", dict(c))
    chk.extra["exhaustive"] = True
    chk.extra["exhaustive_scope"] = (f"all sequences init . (thr . [rm] . add)^k . [finalise] for the configurations {configs} (alphabet = likelihood values 0..a-1, "
                                     f"batches = all multisets up to the stated size, thresholds = alphabet plus below-all and above-all), in each of the 4 modes: "
                                     f"{total_seq} sequences; the random-history part is sampled")
    chk.extra["excluded_by_precondition"] = ["remove_samples twice in replace-all mode (live set is None)", "strict add before any threshold was set"]
    chk.assumptions += ["tie order between equal likelihoods is unspecified: ids are compared as sets per partition, alignment per id"]
    chk.finish("exhaustive bounded enumeration of store histories per mode with a list-model oracle compared after every call, plus long random histories "
               "(batches up to thousands, forced ties, thresholds below/at/above the live range). Non-trivial = shard or history in which at least one "
               "store operation was compared; distinct by shard/history identity.",
               require_observed=["store_operations_compared", "exhaustive_sequences", "random_history_operations"])


if __name__ == "__main__":
    main()
