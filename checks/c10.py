"""C10 — batched, chunked and pooled evaluation equals pointwise evaluation, exactly once.

Monitor: every point carries a unique id in its first parameter; the instrumented user functions log the ids they
receive per call.  Oracle: returned array == [f(x_i)] bit for bit and in order; multiset of ids seen == batch ids;
call sizes respect the chunk size; likelihood_evaluations moves by exactly N.
Workload: exhaustive (N, chunksize, pool, variant, function) grid with a deterministic in-process fake pool, then real
fork pools (nessai-created and user-supplied) with content-keyed microsecond delays in the workers.
"""
import itertools
import os

import numpy as np

from vlib.common import Check, assert_repo, rng_for

VARIANTS = ["vectorised", "novec_float", "novec_0d", "novec_1elem", "vec_disallowed", "mixed_unit_single", "approx_vectorised"]


def is_vec(variant, fn):
    """Is the user function behind interface fn usable on whole batches (so that nessai may pass batches to it)?"""
    if variant == "vectorised":
        return True
    if variant == "mixed_unit_single":      # likelihood and prior vectorised, the user's unit-hypercube prior written for one point at a time
        return fn != "prior_unit_hypercube"
    if variant == "approx_vectorised":      # the likelihood accepts batches but its batch path is only approximately equal to its single-point path
        return not fn.startswith("likelihood")
    return False
FUNCS = ["likelihood", "likelihood_unit", "prior", "prior_from_unit", "prior_unit_hypercube"]


def f_exact(a, b):
    # exactly -inf on part of the box (a hard cut in the likelihood is a legitimate zero-likelihood region): batch evaluation must return the same -inf
    with np.errstate(invalid="ignore"):
        return np.where(np.asarray(b) > 3.0, -np.inf, -0.5 * (a * a + b * b)) if np.ndim(b) else (-np.inf if b > 3.0 else -0.5 * (a * a + b * b))


def one(v):
    """Scalar value of a single point (np.void or length-1 array); raises TypeError for real batches (non-vectorised user code)."""
    v = np.asarray(v)
    if v.size != 1:
        raise TypeError("this user function only accepts one point at a time")
    return float(v.reshape(-1)[0])


def build_model(variant, log_path=None, delay_us=0):
    from nessai.model import Model
    from vlib.zoo import ZooModel

    class M(ZooModel):
        def __init__(self):
            self.names = ["uid", "y"]
            self.bounds = {"uid": [0.0, 1e9], "y": [-4.0, 4.0]}
            self._init_boundary()
            self.record_ids = True
            self.log_path = log_path
            self.delay_us = delay_us
            self.prior_call_ids = []

        def _ll(self, x):
            if variant in ("vectorised", "vec_disallowed", "mixed_unit_single"):
                return f_exact(x["uid"] * 1e-3, x["y"])
            if variant == "approx_vectorised":
                if np.size(x) > 1:
                    # single-precision batch path (as an accelerator would give): equal to the double-precision single-point path only to ~1e-7, so nessai's
                    # vectorisation probe must classify the function as not vectorised and evaluate point by point
                    a, b = (x["uid"] * 1e-3).astype(np.float32), x["y"].astype(np.float32)
                    return np.where(b > 3.0, -np.inf, (-0.5 * (a * a + b * b)).astype(np.float64) * (1.0 + 3e-7))
                return f_exact(one(x["uid"]) * 1e-3, one(x["y"]))
            v = f_exact(one(x["uid"]) * 1e-3, one(x["y"]))  # raises on real batches
            if variant == "novec_float":
                return v
            if variant == "novec_0d":
                return np.array(v)
            return np.array([v])

        def log_prior(self, x):
            self.prior_call_ids.append(np.atleast_1d(x["uid"]).astype(float).tolist())
            if variant in ("vectorised", "vec_disallowed", "mixed_unit_single", "approx_vectorised"):
                return np.log(self.in_bounds(x), dtype=float) - 0.125 * x["y"] * x["y"]
            with np.errstate(divide="ignore"):
                return float(np.log(one(self.in_bounds(x)))) - 0.125 * one(x["y"]) * one(x["y"])

        def log_prior_unit_hypercube(self, x):
            self.prior_call_ids.append(np.atleast_1d(x["uid"]).astype(float).tolist())
            if variant == "mixed_unit_single":
                u, y = one(x["uid"]), one(x["y"])    # raises on real batches
                with np.errstate(divide="ignore"):
                    return float(np.log(float(0.0 <= u < 1.0 and 0.0 <= y < 1.0)))
            return Model.log_prior_unit_hypercube(self, x)

    m = M()
    if variant == "vec_disallowed":
        m.allow_vectorised = False
        m.allow_vectorised_prior = False
    return m


class FakePool:
    """Deterministic in-process pool: map() evaluates the iterable in order (like multiprocessing.Pool.map returns)."""

    def __init__(self, processes=None, expose=True):
        if expose and processes is not None:
            self._processes = processes
        self.map_calls = 0
        self.items = 0

    def map(self, func, iterable):
        self.map_calls += 1
        items = list(iterable)
        self.items += len(items)
        return [func(i) for i in items]

    def close(self):
        pass

    def join(self):
        pass

    def terminate(self):
        pass


def make_batch(model, N, uid0, rng, unit=False):
    from nessai.livepoint import numpy_array_to_live_points

    a = np.empty((N, 2))
    a[:, 0] = np.arange(uid0, uid0 + N)
    a[:, 1] = rng.uniform(-4, 4, N)
    if unit:
        a[:, 0] = (a[:, 0]) / 1e9  # exactly representable ids are restored by from_unit_hypercube? no: compare by value
        a[:, 1] = (a[:, 1] + 4) / 8
    return numpy_array_to_live_points(a, model.names)


def grid_cell(model, pool_kind, N, chunksize, fn, uid0, rng):
    """Run one cell; return list of problems."""
    variant = model._variant
    probs = []
    model.likelihood_chunksize = chunksize
    unit = fn in ("likelihood_unit", "prior_from_unit", "prior_unit_hypercube")
    x = make_batch(model, N, uid0, rng, unit=unit)
    phys = model.from_unit_hypercube(x) if fn in ("likelihood_unit", "prior_from_unit") else x
    model.b_call_ids.clear()
    model.prior_call_ids.clear()
    before = model.likelihood_evaluations
    if fn == "likelihood":
        out = model.batch_evaluate_log_likelihood(x)
    elif fn == "likelihood_unit":
        out = model.batch_evaluate_log_likelihood(x, unit_hypercube=True)
    elif fn == "prior":
        out = model.batch_evaluate_log_prior(x)
    elif fn == "prior_from_unit":
        out = model.batch_evaluate_log_prior(x, unit_hypercube=True)
    else:
        out = model.batch_evaluate_log_prior_unit_hypercube(x)
    delta = model.likelihood_evaluations - before
    out = np.asarray(out)
    ids = phys["uid"].astype(float).tolist()
    if fn.startswith("likelihood"):
        exp = np.array([f_exact(float(phys["uid"][i]) * 1e-3, float(phys["y"][i])) for i in range(N)], dtype=float)
        calls = [c for c in model.b_call_ids]
        if delta != N:
            probs.append(("counter", delta, N))
    else:
        calls = list(model.prior_call_ids)
        if fn == "prior_unit_hypercube":
            from nessai.model import Model

            exp = np.array([Model.log_prior_unit_hypercube(model, x[i:i + 1])[0] for i in range(N)], dtype=float)
        else:
            with np.errstate(divide="ignore"):
                exp = np.array([np.log(float(model.in_bounds(phys[i]))) - 0.125 * float(phys["y"][i]) * float(phys["y"][i]) for i in range(N)], dtype=float)
        if delta != 0:
            probs.append(("counter moved by a prior evaluation", delta))
    if out.shape != (N,):
        probs.append(("shape", list(out.shape), N))
    elif not np.array_equal(out, exp):
        bad = np.flatnonzero(out != exp)
        probs.append(("values/order", bad[:3].tolist(), out[bad[:3]].tolist(), exp[bad[:3]].tolist()))
    seen = [i for c in calls for i in c]
    if sorted(seen) != sorted(ids):
        probs.append(("exactly-once", len(seen), N, sorted(set(ids) - set(seen))[:3], [i for i in set(seen) if seen.count(i) > 1][:3]))
    if seen != ids and sorted(seen) == sorted(ids) and pool_kind.startswith(("none", "fake")):
        probs.append(("in-process call order differs from batch order",))
    vec = is_vec(variant, fn) and not (pool_kind == "fake_unknown")
    if fn.startswith("likelihood") and chunksize and vec and any(len(c) > chunksize for c in calls):
        probs.append(("chunksize exceeded", chunksize, max(len(c) for c in calls)))
    if not is_vec(variant, fn) and (fn != "prior_unit_hypercube" or variant == "mixed_unit_single") and any(len(c) != 1 for c in calls):
        probs.append(("non-vectorised function called with a batch", [len(c) for c in calls][:5]))
    return probs


def grid_worker(case):
    """One (variant, pool) pair; loops over N, chunksize, function."""
    assert_repo()
    from nessai.utils.multiprocessing import initialise_pool_variables

    variant, pool_kind, maxN, seed = case["variant"], case["pool"], case["maxN"], case["seed"]
    rng = rng_for(seed, "C10", variant, pool_kind)
    model = build_model(variant)
    model._variant = variant
    if pool_kind == "none":
        model.configure_pool()
    else:
        initialise_pool_variables(model)
        if pool_kind.startswith("fake_k"):
            k = int(pool_kind[6:])
            model.configure_pool(pool=FakePool(k))
        elif pool_kind == "fake_unknown":
            model.configure_pool(pool=FakePool(None, expose=False))
        elif pool_kind.startswith("fake_given"):
            k = int(pool_kind[10:])
            model.configure_pool(pool=FakePool(k, expose=False), n_pool=k)
        if case.get("parallel_prior"):
            model.parallelise_prior = True
    # force the vectorisation probes now, so that they are not mistaken for batch calls
    _ = model.vectorised_likelihood, model.vectorised_prior, model.vectorised_prior_unit_hypercube
    expected_vec = is_vec(variant, "likelihood") and pool_kind != "fake_unknown"
    problems = []
    if bool(model.allow_vectorised and model.vectorised_likelihood) != expected_vec:
        problems.append(dict(cell="setup", problems=[("vectorisation detection", bool(model.vectorised_likelihood), expected_vec)]))
    cells = 0
    uid0 = 1
    samples = []
    for N in range(0, maxN + 1):
        for chunksize in [None] + list(range(1, N + 2)):
            for fn in FUNCS:
                if fn != "likelihood" and fn != "likelihood_unit" and chunksize not in (None, 1, 2):
                    continue  # the chunk size only applies to the likelihood
                try:
                    p = grid_cell(model, pool_kind, N, chunksize, fn, uid0, rng)
                except Exception as e:
                    import traceback

                    p = [("exception", f"{type(e).__name__}: {e}", traceback.format_exc()[-600:])]
                cells += 1
                uid0 += N
                if p:
                    problems.append(dict(cell=dict(variant=variant, pool=pool_kind, N=N, chunksize=chunksize, fn=fn), problems=p))
                elif len(samples) < 2 and N == 5 and chunksize == 2:
                    samples.append(dict(variant=variant, pool=pool_kind, N=N, chunksize=chunksize, fn=fn, calls=[len(c) for c in (model.b_call_ids or model.prior_call_ids)]))
    # single-point interface
    from nessai.livepoint import numpy_array_to_live_points

    x = numpy_array_to_live_points(np.array([[7.0, 0.5]]), model.names)
    b = model.likelihood_evaluations
    model.evaluate_log_likelihood(x)
    if model.likelihood_evaluations - b != 1:
        problems.append(dict(cell="evaluate_log_likelihood", problems=[("counter", model.likelihood_evaluations - b, 1)]))
    return dict(cells=cells, problems=problems[:20], n_problem_cells=len(problems), samples=samples)


def real_pool_worker(case):
    """Real fork pool cell: nessai-created or user-supplied multiprocessing.Pool, delays injected in the workers."""
    assert_repo()
    import multiprocessing
    from nessai.utils.multiprocessing import initialise_pool_variables

    rng = rng_for(case["seed"], "C10real", case["idx"])
    log_path = os.path.join(case["scratch"], f"calls-{case['idx']}.log")
    if os.path.exists(log_path):
        os.remove(log_path)
    variant = case["variant"]
    model = build_model(variant, log_path=log_path, delay_us=case["delay_us"])
    model._variant = variant
    k = case["k"]
    # probes before the fork so that workers inherit a settled model
    _ = model.vectorised_likelihood, model.vectorised_prior
    pool = None
    if case["user_pool"]:
        ctx = multiprocessing.get_context("fork")
        pool = ctx.Pool(k, initializer=initialise_pool_variables, initargs=(model,))
        model.configure_pool(pool=pool)
    else:
        model.configure_pool(n_pool=k)
    model.likelihood_chunksize = case["chunksize"]
    problems = []
    events = 0
    uid0 = 1
    orders_differ = 0
    try:
        for rep in range(case["batches"]):
            N = int(rng.integers(0, case["maxN"] + 1))
            x = make_batch(model, N, uid0, rng)
            uid0 += N
            open(log_path, "w").close()
            before = model.likelihood_evaluations
            out = model.batch_evaluate_log_likelihood(x)
            events += 1
            exp = np.array([f_exact(float(x["uid"][i]) * 1e-3, float(x["y"][i])) for i in range(N)], dtype=float)
            if np.asarray(out).shape != (N,) or not np.array_equal(out, exp):
                problems.append(("values/order", N))
            if model.likelihood_evaluations - before != N:
                problems.append(("counter", model.likelihood_evaluations - before, N))
            seen, pids, sizes = [], set(), []
            with open(log_path) as f:
                for line in f:
                    parts = line.split()
                    if parts[1] != "L":
                        continue
                    pids.add(parts[0])
                    ids = [float(v) for v in parts[4].split(",")] if len(parts) > 4 else []
                    sizes.append(len(ids))
                    seen += ids
            if sorted(seen) != sorted(x["uid"].astype(float).tolist()):
                problems.append(("exactly-once", len(seen), N))
            if seen != x["uid"].astype(float).tolist():
                orders_differ += 1
            if N and os.getpid() in {int(p) for p in pids}:
                problems.append(("evaluated in the parent although a pool is configured",))
            if case["chunksize"] and variant == "vectorised" and sizes and max(sizes) > case["chunksize"]:
                problems.append(("chunksize exceeded", max(sizes)))
    finally:
        model.close_pool()
        if pool is not None:
            try:
                pool.terminate()
            except Exception:
                pass
    return dict(problems=problems[:10], events=events, completion_order_differs=orders_differ)


def main():
    chk = Check("C10", "exploration")
    assert_repo()
    from vlib.farm import run_cases

    maxN = 12 if chk.quick else 40
    pools = ["none"] + [f"fake_k{k}" for k in (1, 2, 3, 4)] + ["fake_unknown"] + [f"fake_given{k}" for k in (1, 3)]
    cases = []
    for v in VARIANTS:
        for p in pools:
            cases.append(dict(variant=v, pool=p, maxN=maxN, seed=chk.seed, parallel_prior=False))
            if p.startswith("fake_k") and p in ("fake_k2", "fake_k3"):
                cases.append(dict(variant=v, pool=p, maxN=maxN, seed=chk.seed, parallel_prior=True))
    if chk.replay_case:
        c = chk.replay_case["case"]
        if "k" in c:
            c["scratch"] = chk.scratch
            print(real_pool_worker(c))
        else:
            print(grid_worker(c))
        return
    res = run_cases(cases, "checks.c10:grid_worker", chk.scratch, nproc=chk.args.nproc, timeout=1800)
    total_cells = 0
    for c, r in zip(cases, res):
        if "cells" not in r:
            chk.note_inconclusive(f"grid {c['variant']}/{c['pool']}: {str(r)[:300]}", fatal=True)
            chk.case_done()
            continue
        total_cells += r["cells"]
        chk.count("grid_cells", r["cells"])
        chk.case_done(ident=("grid", c["variant"], c["pool"], c["parallel_prior"]), nontrivial=r["cells"] > 0,
                      sample=r["samples"][0] if r["samples"] and c["pool"] in ("fake_k3", "none") and c["variant"] == "vectorised" else None)
        for pc in r["problems"]:
            for p in pc["problems"]:
                chk.violation(f"C10:{p[0]}", f"cell {pc['cell']}: {p}", dict(c))
    # real pools
    n_real = 60 if chk.quick else 600
    rc = []
    for i in range(n_real):
        rng = rng_for(chk.seed, "C10cfg", i)
        rc.append(dict(idx=i, seed=chk.seed, scratch=chk.scratch, variant=["vectorised", "novec_float", "novec_1elem"][i % 3], k=1 + i % 4,
                       user_pool=bool((i // 4) % 2), chunksize=[None, 1, 3, 7, 50][i % 5], maxN=int(rng.choice([8, 30, 120])),
                       batches=6 if chk.quick else 10, delay_us=int(rng.choice([0, 200, 2000])), _timeout=300))
    res = run_cases(rc, "checks.c10:real_pool_worker", chk.scratch, nproc=min(chk.args.nproc, 8), timeout=300)
    differ = 0
    for c, r in zip(rc, res):
        if "events" not in r:
            chk.note_inconclusive(f"real pool cell {c['idx']}: {str(r)[:300]}")
            chk.case_done()
            continue
        chk.count("real_pool_batches", r["events"])
        differ += r["completion_order_differs"]
        chk.case_done(ident=("real", c["variant"], c["k"], c["user_pool"], c["chunksize"], c["maxN"], c["delay_us"]), nontrivial=r["events"] > 0,
                      sample={k: c[k] for k in ("variant", "k", "user_pool", "chunksize", "maxN", "delay_us")} if c["idx"] < 2 else None)
        for p in r["problems"]:
            chk.violation(f"C10:real:{p[0]}", f"real fork pool cell {c}: {p}", {k: v for k, v in c.items() if k != "scratch"})
    chk.count("real_pool_batches_completed_out_of_submission_order", differ)
    chk.extra["exhaustive"] = True
    chk.extra["exhaustive_scope"] = (f"fake-pool grid: N 0..{maxN} x chunksize None,1..N+1 x {len(pools)} pool kinds x {len(VARIANTS)} function variants x "
                                     f"{len(FUNCS)} interfaces = {total_cells} cells, all enumerated; the real-pool part is sampled")
    chk.assumptions += ["'vectorised' means: n>=1 points in -> (n,) array out (what check_vectorised_function presumes)",
                        "real pools use the fork start method; spawn/forkserver not reached"]
    chk.finish("exhaustive grid over (batch size, chunk size, pool kind, vectorisation variant, interface) with unique ids per point and an id log at the "
               "user boundary; plus sampled real fork pools with content-keyed delays. Non-trivial = a (variant, pool) pair whose cells were all executed, or a "
               "real-pool configuration with at least one monitored batch; distinct by configuration tuple.",
               require_observed=["grid_cells", "real_pool_batches"])


if __name__ == "__main__":
    main()
