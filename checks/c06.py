"""C06 — evidence estimates and posteriors are calibrated against analytic truths (seeds x cells, fixed-threshold statistical rules)."""
import math
import os
import shutil

import numpy as np

from vlib.common import Check, assert_repo, rng_for

ALPHA = 1e-9   # per check; split over cells x rules

CELLS = [
    # name, sampler, model, kwargs
    ("std-default", "std", "G2u", {}),
    ("std-no-uninformed", "std", "G2u", {"maximum_uninformed": 0}),
    ("std-analytic-nonuniform", "std", "G2n", {"analytic_priors": True}),
    ("std-augmented", "std", "G2u", {"flow_proposal_class": "AugmentedFlowProposal"}),
    ("std-augmented-4-dims", "std", "G2u", {"flow_proposal_class": "AugmentedFlowProposal", "augment_dims": 4}),
    ("std-augmented-marginalised", "std", "G2u", {"flow_proposal_class": "AugmentedFlowProposal", "augment_dims": 2, "marginalise_augment": True, "n_marg": 20}),
    ("std-maf-logit-t", "std", "G2u", {"flow_config": {"ftype": "maf"}, "reparameterisations": {"x0": "logit", "x1": "logit"}, "shrinkage_expectation": "t"}),
    ("ins-default", "ins", "G2u", {"nlive": 500, "min_samples": 100}),
    ("ins-strict-nonuniform", "ins", "G2n", {"nlive": 500, "min_samples": 100, "strict_threshold": True}),
    ("std-narrow-prior-box-draws", "std", "G2rn", {}),
    ("ins-no-iid", "ins", "G2u", {"nlive": 500, "min_samples": 100, "draw_iid_live": False}),
    ("std-G4u", "std", "G4u", {}),
    ("std-uninformed-50-nsf", "std", "G2u", {"maximum_uninformed": 50, "flow_config": {"ftype": "nsf"}}),
    ("std-inversion", "std", "G2u", {"reparameterisations": {"x0": "inversion", "x1": "default"}}),
    ("std-nball", "std", "G2n", {"latent_prior": "uniform_nball"}),
    ("std-rejection-box-draws", "std", "G2r", {}),
    ("ins-replace-all", "ins", "G2u", {"nlive": 500, "min_samples": 100, "replace_all": True}),
    ("ins-variable-draws", "ins", "G2u", {"nlive": 500, "min_samples": 100, "draw_constant": False}),
    ("ins-quantile-maf", "ins", "G2u", {"nlive": 500, "min_samples": 100, "threshold_method": "quantile", "flow_config": {"ftype": "maf"}}),
    ("std-nlive400", "std", "G2u", {"nlive": 400}),
    ("std-bimodal", "std", "Bi2", {}),
    ("ins-bimodal", "ins", "Bi2", {"nlive": 500, "min_samples": 100}),
    ("std-constrained-prior", "std", "G2c", {}),
    ("ins-constrained-prior", "ins", "G2c", {"nlive": 500, "min_samples": 100}),
    # likelihood exactly zero (log L = -inf) over 82 % of the prior: a legitimate input (nessai only warns)
    ("std-accumulate-weights", "std", "G2u", {"accumulate_weights": True}),
    ("std-accumulate-weights-G4u", "std", "G4u", {"accumulate_weights": True}),
    # numerically extreme likelihood magnitudes (additive constants -2000 / +900 in log L): the evidence and its uncertainty must stay finite and calibrated
    ("ins-logL-minus-2000", "ins", "G2o", {"nlive": 500, "min_samples": 100}),
    ("ins-logL-plus-900", "ins", "G2p", {"nlive": 500, "min_samples": 100}),
    ("std-logL-minus-2000", "std", "G2o", {}),
    ("std-hard-cut", "std", "G2h", {}),
    ("ins-hard-cut", "ins", "G2h", {"nlive": 500, "min_samples": 100}),
    ("std-flat-direction-prime-prior", "std", "G2f", {"reparameterisations": {"x0": {"reparameterisation": "rescaletobounds", "rescale_bounds": [0.0, 1.0], "prior": "uniform"},
                                                                              "x1": {"reparameterisation": "rescaletobounds", "rescale_bounds": [0.0, 1.0], "prior": "uniform"}}}),
]
QUICK = ["std-default", "std-no-uninformed", "std-analytic-nonuniform", "std-augmented", "std-maf-logit-t", "std-narrow-prior-box-draws", "ins-default", "ins-strict-nonuniform", "ins-no-iid",
         "ins-constrained-prior", "std-augmented-4-dims", "std-nball", "std-hard-cut", "ins-hard-cut", "std-accumulate-weights-G4u", "ins-logL-minus-2000"]


def calib_worker(case):
    assert_repo()
    from vlib.runs import std_kwargs, ins_kwargs, quiet_logging, reset_globals
    from vlib import zoo
    from nessai.flowsampler import FlowSampler

    quiet_logging()
    reset_globals()
    out = case["outdir"]
    shutil.rmtree(out, ignore_errors=True)
    ins = case["sampler"] == "ins"
    model = zoo.make(case["model"])
    ckw = dict(case["kwargs"], seed=case["seed"])
    if not ins:
        # Calibration of the standard sampler presupposes a proposal that covers the likelihood contour: with the tiny flows used by the structural checks
        # (2 blocks x 4 neurons, 10 epochs) the latent contour under-covers and log Z comes out +0.05 (2-d) to +0.25 (4-d) too large — measured, and gone
        # (-0.004 +- 0.04 at 32 seeds) with this still small but adequately trained flow.  That bias is a property of the configuration, not a defect.
        ckw["flow_config"] = {**dict(n_blocks=4, n_neurons=16, n_layers=2), **ckw.get("flow_config", {})}
        ckw["training_config"] = {**dict(max_epochs=200, patience=20), **ckw.get("training_config", {})}
    kw = (ins_kwargs if ins else std_kwargs)(ckw)
    if ins:
        kw["max_iteration"] = 60
    res = dict(cell=case["cell"], seed=case["seed"])
    try:
        fs = FlowSampler(model, output=out, resume=False, importance_nested_sampler=ins, signal_handling=False, **kw)
        fs.run(plot=False, save=False)
        ns = fs.ns
        a = ns.samples if ins else np.array(ns.nested_samples)
        lw = np.asarray(ns.log_posterior_weights if ins else ns.state.log_posterior_weights, dtype=float)
        w = np.exp(lw - np.max(lw))
        w /= w.sum()
        moments = {}
        for nm in model.names:
            m = float(np.sum(w * a[nm]))
            v = float(np.sum(w * (a[nm] - m) ** 2))
            moments[nm] = (m, v)
        res.update(logZ=float(fs.logZ), err=float(fs.logZ_error), truth=float(model.true_log_evidence), moments=moments, iterations=int(ns.iteration),
                   final_p=None if ins or ns.final_p_value is None else float(ns.final_p_value), ess=float(1.0 / np.sum(w * w)), nlive=int(ns.nlive),
                   converged=bool(ns.finalised) and (True if not ins else bool(ns.iteration < 60)))
    except BaseException as e:
        res["error"] = f"{type(e).__name__}: {e}"[:300]
    finally:
        try:
            model.close_pool()
        except Exception:
            pass
        shutil.rmtree(out, ignore_errors=True)
    return res


def evaluate_cell(name, sampler, runs, truth_moments, n_rules_total):
    """Apply the fixed decision rules; returns (failures [(rule, detail)], summary)."""
    from scipy import stats

    S = len(runs)
    alpha = ALPHA / n_rules_total
    fails = []
    logZ = np.array([r["logZ"] for r in runs])
    err = np.array([r["err"] for r in runs])
    truth = runs[0]["truth"]
    e = logZ - truth
    summary = dict(cell=name, seeds=S)
    # rule 1
    if not (np.all(np.isfinite(logZ)) and np.all(np.isfinite(err)) and np.all(err > 0)):
        fails.append(("non-finite-evidence-or-non-positive-error", dict(nan_logZ=int(np.sum(~np.isfinite(logZ))), bad_err=int(np.sum(~(np.isfinite(err) & (err > 0)))))))
        return fails, summary
    q = float(stats.t.ppf(1 - alpha / 2, S - 1))
    sd = float(np.std(e, ddof=1))
    nlive = runs[0]["nlive"]
    b = float(np.mean(err ** 2) / 2 + (2.0 / nlive if sampler == "std" else 1e-3))
    mean_e = float(np.mean(e))
    summary.update(mean_error=mean_e, sd_error=sd, mean_sigma=float(np.mean(err)), t=mean_e / (sd / math.sqrt(S)) if sd > 0 else float("inf"), allowed=q * sd / math.sqrt(S) + b,
                   resolution=q * sd / math.sqrt(S))
    # rule 2
    if abs(mean_e) > q * sd / math.sqrt(S) + b:
        fails.append(("mean-error-incompatible-with-zero", dict(mean_error=mean_e, allowed=q * sd / math.sqrt(S) + b, sd=sd, seeds=S)))
    # rule 3
    ratio = sd ** 2 / float(np.mean(err ** 2))
    kappa = 2.0
    lo = stats.chi2.ppf(alpha / 2, S - 1) / (S - 1) / kappa
    hi = stats.chi2.ppf(1 - alpha / 2, S - 1) / (S - 1) * kappa
    summary.update(variance_ratio=ratio, variance_ratio_bounds=(float(lo), float(hi)))
    if not lo <= ratio <= hi:
        fails.append(("error-spread-incompatible-with-reported-uncertainty", dict(variance_ratio=ratio, bounds=(float(lo), float(hi)))))
    # rule 4: posterior moments
    worst = 0.0
    for nm, (tm, tv) in truth_moments.items():
        em = np.array([r["moments"][nm][0] for r in runs]) - tm
        ev = np.array([r["moments"][nm][1] for r in runs]) - tv
        sm, sv = float(np.std(em, ddof=1)), float(np.std(ev, ddof=1))
        ess = float(np.mean([r["ess"] for r in runs]))
        am = q * sm / math.sqrt(S) + 0.02 * math.sqrt(tv)
        av = q * sv / math.sqrt(S) + tv * (3.0 / max(ess, 1.0) + 0.03)
        worst = max(worst, abs(float(np.mean(em))) / am, abs(float(np.mean(ev))) / av)
        if abs(float(np.mean(em))) > am:
            fails.append(("posterior-mean-off", dict(parameter=nm, mean_error=float(np.mean(em)), allowed=am)))
        if abs(float(np.mean(ev))) > av:
            fails.append(("posterior-variance-off", dict(parameter=nm, mean_error=float(np.mean(ev)), allowed=av, truth=tv)))
    summary["posterior_worst_fraction_of_allowance"] = worst
    # rule 5: insertion-index p-values
    ps = [r["final_p"] for r in runs if r.get("final_p") is not None]
    if ps:
        nsmall = int(np.sum(np.array(ps) < 1e-3))
        limit = int(stats.binom.isf(alpha, len(ps), 5e-3))
        summary.update(insertion_p_below_1e3=nsmall, insertion_p_limit=limit, min_insertion_p=float(np.min(ps)))
        if nsmall > limit:
            fails.append(("insertion-index-p-values-concentrated-near-zero", dict(n_below=nsmall, limit=limit, runs=len(ps))))
    return fails, summary


def main():
    chk = Check("C06", "exploration")
    assert_repo()
    from vlib.farm import run_cases
    from vlib import zoo

    names = QUICK if chk.quick else [c[0] for c in CELLS]
    S = 24 if chk.quick else 200
    cells = {c[0]: c for c in CELLS}
    if chk.replay_case:
        names = [chk.replay_case["case"]["cell"]]
    if chk.args.only:
        names = [n for n in names if chk.args.only in n]

    def cases_for(nm, round_):
        _, sampler, model, kw = cells[nm]
        out = []
        for s in range(S):
            seed = int(rng_for(chk.seed, "C06", nm, round_, s).integers(1, 2**31 - 1))
            out.append(dict(cell=nm, sampler=sampler, model=model, kwargs=kw, seed=seed, outdir=os.path.join(chk.scratch, f"{nm}-{round_}-{s}"), _timeout=400))
        return out

    n_rules = len(names) * 8
    all_cases = [c for nm in names for c in cases_for(nm, 0)]
    res = run_cases(all_cases, "checks.c06:calib_worker", chk.scratch, nproc=chk.args.nproc, timeout=400)
    by_cell = {}
    for c, r in zip(all_cases, res):
        by_cell.setdefault(c["cell"], []).append(r)
    summaries = {}
    for nm in names:
        _, sampler, model_name, kw = cells[nm]
        runs = by_cell.get(nm, [])
        good = [r for r in runs if "logZ" in r]
        bad = [r for r in runs if "logZ" not in r]
        for r in bad:
            chk.note_inconclusive(f"{nm}: {str(r)[:300]}")
        chk.count("runs_completed", len(good))
        if len(good) < 0.9 * S:
            chk.case_done()
            continue
        tm = zoo.make(model_name).posterior_moments() if hasattr(zoo.make(model_name), "posterior_moments") else {}
        fails, summ = evaluate_cell(nm, sampler, good, tm, n_rules)
        if fails:
            # second round with fresh seeds: reported only if it fails again (guards against a mis-stated null)
            c2 = cases_for(nm, 1)
            r2 = [r for r in run_cases(c2, "checks.c06:calib_worker", chk.scratch, nproc=chk.args.nproc, timeout=400) if "logZ" in r]
            chk.count("runs_completed", len(r2))
            fails2, summ2 = evaluate_cell(nm, sampler, r2, tm, n_rules) if len(r2) >= 0.9 * S else ([], {})
            summ["second_round"] = summ2
            both = [f for f in fails if any(f2[0] == f[0] for f2 in fails2)]
            summ["first_round_failures"] = [f[0] for f in fails]
            fails = both
        summaries[nm] = summ
        chk.count("cells_decided")
        chk.count("decision_rules_evaluated", 5)
        chk.case_done(ident=(nm, S), nontrivial=True, sample=summ if len(chk.samples) < 3 else None)
        for rule, detail in fails:
            key = f"C06:{nm}:{rule}"
            if sampler == "ins" and hasattr(zoo.make(model_name), "in_support") and (
                    (rule == "mean-error-incompatible-with-zero" and detail["mean_error"] > 0) or rule in ("posterior-variance-off", "posterior-mean-off")):
                # mechanism, not cell name: importance sampler + a region of zero prior density inside the unit hypercube + evidence too large
                key = "C06:ins:zero-prior-region-inside-unit-hypercube:evidence-biased-upward"
            if sampler == "std" and getattr(zoo.make(model_name), "zero_likelihood_prior_fraction", 0) > 0 and rule == "mean-error-incompatible-with-zero" and detail["mean_error"] > 0:
                # mechanism: standard sampler + a region of the prior where the likelihood is exactly zero + evidence too large (the initial live set is redrawn until every
                # point has a finite log-likelihood, i.e. it is drawn from the prior restricted to L > 0 but integrated as if it covered the whole prior)
                key = "C06:std:zero-likelihood-region:initial-live-points-redrawn-until-finite:evidence-biased-upward"
            chk.violation(key, f"cell {nm} ({sampler}, {model_name}, {kw}) over {len(good)} seeds (failed in two independent rounds): {detail}; summary {summ}",
                          dict(cell=nm))
    chk.extra["cells"] = summaries
    chk.extra["seeds_per_cell"] = S
    chk.assumptions += ["null hypothesis per cell: E[log Z_hat] = log Z up to the stated allowance b = mean(sigma^2)/2 (Jensen) + 2/nlive (quadrature discretisation; 1e-3 for INS)",
                        "variance-ratio rule uses kappa = 2 (the reported NS uncertainty is itself approximate)", "total false-alarm probability 1e-9 split over cells and rules; a cell is reported only if it fails twice"]
    chk.finish("seeds x configuration cells on models with closed-form evidence and posterior moments (2-d/4-d Gaussian likelihood under uniform and truncated-normal priors): per "
               "cell, rule 1 finite logZ and positive error, rule 2 mean error within Student-t bound + stated allowance, rule 3 variance ratio within chi-square bounds (kappa 2), "
               "rule 4 pooled posterior means/variances against the truncated-Gaussian closed form, rule 5 insertion-index p-values; failing cells are re-run with fresh seeds "
               "and only reported if they fail again. Non-trivial = cell with at least 90 % completed runs; distinct by cell.",
               require_observed=["cells_decided", "runs_completed"], min_nontrivial=2)


if __name__ == "__main__":
    main()
