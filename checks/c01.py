"""C01 — the live set evolves only by likelihood-constrained replacement (pre/post monitor on every consume_sample)."""
from vlib.common import Check, assert_repo
from vlib.runhelp import run_matrix


REPLACE_STEP = ("insert_live_point", "consume_sample", "yield_sample", "populate_live_points", "finalise")


def post(chk, case, res, small, error_key=None):
    """A run that raises from inside the replacement step itself refutes C01 (the step could not be carried out)."""
    if error_key and error_key.split("@")[-1] in REPLACE_STEP:
        chk.violation(f"C01:exception:{error_key}", f"{case['name']}: {res['error']}", small)
        return True
    return False


def idem(c):
    # the finished run is run again and resumed from its last checkpoint with the C01 monitors still armed (a sampler that re-enters the loop, or draws a new
    # initial live set after points were discarded, is seen there)
    return dict(c, idempotence=True)


def main():
    chk = Check("C01", "exploration")
    assert_repo()
    run_matrix(chk, props=("C01",), post=post, extra_case=idem, deciding=["C01.consume_sample", "C01.populate_live_points", "C01.finalise", "C01.end_of_run"],
               rule="real FlowSampler runs over the standard-sampler matrix (models G2u/G4u/G2n/Tie2/GW5 x proposal classes x latent priors x reparameterisations "
                    "x flow types x nlive 10..300 x uninformed variants, a third stopped abruptly and resumed from the last checkpoint); the monitor compares the "
                    "live set before and after every consume_sample, the initial live set and finalise. Non-trivial = run with at least one monitored replacement "
                    "and no harness error; distinct by (cell, seed, resumed).")


if __name__ == "__main__":
    main()
