"""C02 — evidence and posterior weights equal the documented NS quadrature (reference-model monitor, mpmath)."""
import math
import sys

import numpy as np

from vlib.common import Check, assert_repo, rng_for

EPS = np.finfo(float).eps
CLASSES = ["smooth", "ties", "leading_inf", "tiny_range", "huge_range", "plateau_spike", "offset", "linear", "mass_spread"]
NLIVES = [1, 2, 3, 10, 100, 2000]
SHIFTS = [1.0, -1.0, 1e3, -1e3, 1e5, -1e5]


def gen_case(seed, n, quick):
    rng = rng_for(seed, "C02", n)
    cls = CLASSES[n % len(CLASSES)]
    nlive = int(NLIVES[(n // len(CLASSES)) % len(NLIVES)])
    exp = ["logt", "t"][(n // (len(CLASSES) * len(NLIVES))) % 2]
    # nessai accepts the mode case-insensitively (validation and every consumer lower-case it): one case in four spells it differently
    spelling = {"logt": ["logt", "logt", "logt", "LogT", "LOGT", "logT"], "t": ["t", "t", "t", "T"]}[exp]
    spelling = spelling[(n // 3) % len(spelling)]
    sched = ["const_closing", "varying", "const"][int(rng.integers(3))]
    maxlen = 1200 if quick else 5000
    deep = rng.random() < 0.25  # long runs: log-volumes far below the float64 underflow point of exp()
    if sched == "const_closing":
        N = int(rng.integers(nlive, max(nlive + 2, maxlen if deep else min(maxlen, nlive * 12 + 50))))
    else:
        N = int(rng.integers(max(1, nlive), max(nlive + 2, maxlen if deep else min(maxlen, nlive * 8 + 50))))
    if cls == "smooth":
        x = np.sort(rng.normal(0, 10 ** rng.uniform(-1, 2), N))
    elif cls == "ties":
        x = np.sort(np.round(rng.normal(0, 5, N)))
    elif cls == "leading_inf":
        x = np.sort(rng.normal(0, 3, N))
        k = int(rng.integers(1, max(2, N // 2)))
        x[:k] = -np.inf
    elif cls == "tiny_range":
        x = np.sort(rng.uniform(0, 1, N)) * 10 ** rng.uniform(-12, -6) + rng.choice([0.0, 1.0, -3.0])
    elif cls == "huge_range":
        x = np.sort(rng.uniform(-1, 1, N)) * 10 ** rng.uniform(3, 5)
    elif cls == "plateau_spike":
        x = np.full(N, rng.normal())
        k = int(rng.integers(1, max(2, N // 10 + 1)))
        x[-k:] += np.sort(rng.exponential(50, k))
    elif cls == "offset":
        x = np.sort(rng.normal(0, 2, N)) + rng.choice([1e3, -1e3, 9e4, -9e4])
    elif cls == "mass_spread":
        # likelihood rising about as fast as the prior volume shrinks: L*dX stays comparable over a dynamic range far beyond exp(745), so low-likelihood
        # points carry real evidence mass (an implementation that exponentiates relative to the global maximum underflows them)
        nlive = int(rng.choice([1, 2, 3, 5]))
        N = int(rng.integers(1800, 2600)) if quick else int(rng.integers(3000, 6000))
        sched = ["const_closing", "const", "varying"][int(rng.integers(3))]
        rate = rng.uniform(0.6, 0.98) / nlive
        x = np.cumsum(rng.uniform(0.5, 1.5, N)) * rate + rng.normal(0, 3)
        if rng.random() < 0.5:   # a faster rise first, then the slow one
            k = N // 6
            x[:k] = x[:k] * 2.5 - x[k - 1] * 1.5
            x = np.sort(x)
    else:
        x = np.linspace(-rng.uniform(1, 100), rng.uniform(0, 100), N)
    x = np.clip(x, -1e5, 1e5, out=x.copy()) if cls != "leading_inf" else np.where(np.isinf(x), x, np.clip(x, -1e5, 1e5))
    if sched == "const_closing":
        nl = np.full(N, float(nlive))
        nl[-nlive:] = np.arange(nlive, 0, -1, dtype=float)
    elif sched == "const":
        nl = np.full(N, float(nlive))
    else:
        nl = rng.integers(1, max(2, 2 * nlive + 1), N).astype(float)
    return dict(n=n, cls=cls, nlive=nlive, expectation=exp, spelling=spelling, sched=sched, logL=x, nlives=nl)


def close(a, b, tol):
    """a real (float), b mp reference."""
    from vlib.oracles.quadrature import NINF

    if b == NINF:
        return a == -np.inf
    if not np.isfinite(a):
        return False
    return abs(a - float(b)) <= tol or abs(float(a - b)) <= tol


def check_sequence(c):
    """Returns (problems, n_monitor_events)."""
    from nessai.evidence import _NSIntegralState
    from nessai.posterior import compute_weights
    from vlib.oracles.quadrature import reference

    logL, nls, exp, nlive = c["logL"], c["nlives"], c["expectation"], c["nlive"]
    N = len(logL)
    ref = reference(logL.tolist(), nls.tolist(), exp)
    exp = c.get("spelling", exp)  # what nessai is given (the reference above uses the canonical lower-case name)
    finite = logL[np.isfinite(logL)]
    maxabs = float(np.max(np.abs(finite))) if finite.size else 0.0
    maxn = float(np.max(nls))
    probs = []
    events = 0

    def ztol(z):
        return 1e-9 * max(1.0, abs(z) if np.isfinite(z) else 1.0) + 4 * EPS * maxabs + 8 * EPS * maxn * 4

    def vtol(k, v):
        return 8 * (k + 1) * EPS * max(abs(v), 1e-300) + 1e-300

    # --- incremental state, compared after every increment
    with np.errstate(all="ignore"):
        st = _NSIntegralState(nlive, track_gradients=False, expectation=exp)
        if st.log_vols[0] != 0.0:
            probs.append(("log_vols[0]", st.log_vols[0]))
        for k in range(N):
            st.increment(float(logL[k]), nlive=float(nls[k]) if c["sched"] != "const" else None)
            events += 1
            if not close(st.logw, ref["log_vols"][k + 1], vtol(k, st.logw)):
                probs.append(("inc.logw", k, st.logw, float(ref["log_vols"][k + 1])))
                break
            if not close(st.logZ, ref["logZ_rect"][k], ztol(st.logZ)):
                probs.append(("inc.logZ_rect", k, float(st.logZ), float(ref["logZ_rect"][k])))
                break
        if probs:
            return probs, events
        lv = np.array(st.log_vols)
        if len(lv) != N + 1 or len(st.logLs) != N + 1:
            probs.append(("lengths", len(lv), len(st.logLs)))
        if not np.all(np.diff(lv) < 0):
            probs.append(("log_vols not strictly decreasing",))
        if not np.all(np.isfinite(lv)):
            probs.append(("log_vols non-finite",))
        lpw = np.array(st.log_posterior_weights, copy=True)
        _ = st.effective_n_posterior_samples          # reading a summary must not change what the weights accessor returns afterwards
        lpw_again = st.log_posterior_weights
        if not np.array_equal(lpw, lpw_again, equal_nan=True):
            probs.append(("weights-change-after-reading-effective-sample-size", float(np.nanmax(np.abs(lpw - lpw_again)))))
        zfin = st.finalise()
        events += 1
        if zfin != st.logZ or not close(zfin, ref["logZ_trap"], ztol(zfin)):
            probs.append(("finalise.logZ", float(zfin), float(ref["logZ_trap"])))
        bad = [i for i in range(N) if not close(lpw[i], ref["log_post_w"][i], 1e-9 * max(1.0, abs(lpw[i]) if np.isfinite(lpw[i]) else 1.0) + 4 * EPS * maxabs + 32 * EPS * maxn)]
        if len(lpw) != N or bad:
            probs.append(("state.log_posterior_weights", len(lpw), bad[:3], [float(lpw[i]) for i in bad[:3]], [float(ref["log_post_w"][i]) for i in bad[:3]]))
        # gradients on must not affect the integral
        st2 = _NSIntegralState(nlive, track_gradients=True, expectation=exp)
        for k in range(N):
            st2.increment(float(logL[k]), nlive=float(nls[k]) if c["sched"] != "const" else None)
        if st2.finalise() != zfin or st2.log_vols != st.log_vols:
            probs.append(("track_gradients changes the integral",))

        # --- one-pass computation
        variants = [("array", nls.copy())]
        if c["sched"] == "const_closing":
            variants.append(("int", nlive))
        for tag, arg in variants:
            z1, w1 = compute_weights(logL.copy(), arg, expectation=exp)
            events += 1
            if not close(z1, ref["logZ_trap"], ztol(z1)):
                probs.append((f"compute_weights[{tag}].logZ", float(z1), float(ref["logZ_trap"])))
            bad = [i for i in range(N) if not close(w1[i], ref["log_post_w"][i], 1e-9 * max(1.0, abs(w1[i]) if np.isfinite(w1[i]) else 1.0) + 4 * EPS * maxabs + 32 * EPS * maxn)]
            if len(w1) != N or bad:
                probs.append((f"compute_weights[{tag}].weights", bad[:3]))
            if np.isfinite(z1) and (not np.isfinite(zfin) or abs(z1 - zfin) > 2 * ztol(z1)):
                probs.append((f"incremental vs one-pass[{tag}]", float(z1), float(zfin)))
        # --- shift invariance, finiteness
        z0, w0 = compute_weights(logL.copy(), nls.copy(), expectation=exp)
        if ref["logZ_trap"] != float("-inf") and not np.isfinite(z0):
            probs.append(("non-finite logZ", float(z0)))
        for cst in SHIFTS:
            if maxabs + abs(cst) > 2.0e5:
                continue
            zc, wc = compute_weights(logL + cst, nls.copy(), expectation=exp)
            events += 1
            tol = 1e-9 + 16 * EPS * (abs(cst) + maxabs)
            if not (abs(zc - z0 - cst) <= tol):
                probs.append(("shift.logZ", cst, float(zc - z0 - cst)))
            fin = np.isfinite(w0)
            if not (np.array_equal(fin, np.isfinite(wc)) and np.all(np.abs(wc[fin] - w0[fin]) <= 1e-9 + 32 * EPS * (abs(cst) + maxabs))):
                probs.append(("shift.weights", cst))
            sts = _NSIntegralState(nlive, track_gradients=False, expectation=exp)
            for k in range(N):
                sts.increment(float(logL[k] + cst), nlive=float(nls[k]))
            zs = sts.finalise()
            if not (abs(zs - zfin - cst) <= tol + 2 * ztol(zfin)):
                probs.append(("shift.state.logZ", cst, float(zs - zfin - cst)))
    return probs, events


def worker(case):
    assert_repo()
    out = []
    for n in case["ids"]:
        c = gen_case(case["seed"], n, case["quick"])
        if case.get("override"):
            c.update(case["override"])
        finite = c["logL"][np.isfinite(c["logL"])]
        if finite.size == 0:
            out.append(dict(n=n, skipped="no finite likelihood"))
            continue
        try:
            probs, events = check_sequence(c)
        except Exception as e:
            import traceback

            probs, events = [("exception", f"{type(e).__name__}: {e}", traceback.format_exc()[-800:])], 0
        out.append(dict(n=n, cls=c["cls"], nlive=c["nlive"], expectation=c["expectation"], spelling=c.get("spelling", c["expectation"]), sched=c["sched"], N=len(c["logL"]),
                        distinct=int(np.unique(finite).size), events=events, problems=probs,
                        digest=hash(c["logL"].tobytes() + c["nlives"].tobytes()) & 0xFFFFFFFF,
                        head=[float(v) for v in c["logL"][:4]], tail=[float(v) for v in c["logL"][-2:]]))
    return {"results": out}


def hypothesis_pass(chk, n_examples):
    """@given over the same classes (shrinks any counterexample to a small sequence)."""
    from hypothesis import given, settings, strategies as hs, HealthCheck

    found = []

    @settings(max_examples=n_examples, deadline=None, derandomize=True, database=None,
              suppress_health_check=list(HealthCheck))
    @given(hs.lists(hs.floats(-1e5, 1e5, allow_nan=False), min_size=1, max_size=40),
           hs.integers(1, 12), hs.sampled_from(["logt", "t"]), hs.integers(0, 5))
    def prop(vals, nlive, exp, ninf):
        x = np.sort(np.array(vals))
        if ninf and ninf < len(x):
            x[:ninf] = -np.inf
        if len(x) < nlive or not np.any(np.isfinite(x)):
            return
        nl = np.full(len(x), float(nlive))
        nl[-nlive:] = np.arange(nlive, 0, -1, dtype=float)
        c = dict(cls="hypothesis", nlive=nlive, expectation=exp, sched="const_closing", logL=x, nlives=nl)
        probs, ev = check_sequence(c)
        chk.count("hypothesis_examples")
        chk.count("monitor_events", ev)
        if probs:
            found.append((c, probs))
            raise AssertionError(str(probs[0]))

    try:
        prop()
    except BaseException:  # AssertionError or an ExceptionGroup of several distinct shrunk failures
        if not found:
            raise
        c, probs = found[-1]
        chk.violation("C02:" + str(probs[0][0]), f"hypothesis-shrunk sequence {c['logL'].tolist()} nlive={c['nlive']} {c['expectation']}: {probs[0]}",
                      dict(override=dict(logL=c["logL"].tolist(), nlives=c["nlives"].tolist(), nlive=c["nlive"], expectation=c["expectation"], sched=c["sched"], cls="replay")))


def main():
    chk = Check("C02", "exploration")
    chk.max_inconclusive = 0    # deterministic component-level cases: an undecided chunk makes the whole check inconclusive
    assert_repo()
    from vlib.farm import run_cases

    if chk.replay_case:
        ov = chk.replay_case["case"].get("override")
        if ov:
            ov = dict(ov)
            ov["logL"] = np.array(ov["logL"], dtype=float)
            ov["nlives"] = np.array(ov["nlives"], dtype=float)
            c = dict(n=-1, **ov)
            print(check_sequence(c))
        else:
            c = gen_case(chk.replay_case["seed"], chk.replay_case["case"]["n"], chk.replay_case["tier"] == "quick")
            print(check_sequence(c))
        return
    total = 400 if chk.quick else 6000
    chunk = 5 if chk.quick else 20
    ids = list(range(total))
    cases = [dict(ids=ids[i:i + chunk], seed=chk.seed, quick=chk.quick) for i in range(0, total, chunk)]
    results = run_cases(cases, "checks.c02:worker", chk.scratch, nproc=chk.args.nproc, timeout=900)
    for case, res in zip(cases, results):
        if "results" not in res:
            chk.note_inconclusive(f"chunk {case['ids'][0]}..: {str(res)[:300]}")
            chk.evaluations += len(case["ids"])
            continue
        for r in res["results"]:
            if r.get("skipped"):
                chk.case_done()
                chk.count("skipped_" + r["skipped"].replace(" ", "_"))
                continue
            chk.count("monitor_events", r["events"])
            chk.count("sequences_" + r["cls"])
            chk.count("mode_" + r["expectation"])
            if r.get("spelling", r["expectation"]) != r["expectation"]:
                chk.count("mode_spelt_with_capitals")
            chk.count("schedule_" + r["sched"])
            nontriv = r["distinct"] >= 2 and r["events"] > 0
            chk.case_done(ident=(r["cls"], r["nlive"], r["expectation"], r["sched"], r["N"], r["digest"]), nontrivial=nontriv,
                          sample={k: r[k] for k in ("n", "cls", "nlive", "expectation", "sched", "N", "head", "tail", "events")} if r["n"] % 61 == 0 else None)
            for p in r["problems"]:
                chk.violation("C02:" + str(p[0]), f"sequence #{r['n']} class={r['cls']} nlive={r['nlive']} {r['expectation']} {r['sched']} N={r['N']}: {p}", dict(n=r["n"]))
    hypothesis_pass(chk, 150 if chk.quick else 3000)
    chk.assumptions += ["mpmath (60 digits) evaluates the documented quadrature correctly", "tolerances: volumes 8(k+1)eps|v|, logZ 1e-9 max(1,|logZ|)+4 eps max|logL|+32 eps max(n)"]
    chk.finish("seeded generator over 8 likelihood-sequence classes x nlive {1,2,3,10,100,2000} x 2 shrinkage modes x 3 count schedules "
               "(constant+closing, per-iteration varying, constant); every increment, finalise, compute_weights (int and array paths) and 6 shifts "
               "are compared with an mpmath evaluation; plus a hypothesis @given pass. Non-trivial = at least two distinct finite likelihood values "
               "and at least one monitored comparison; distinct = (class, nlive, mode, schedule, length, data digest).",
               require_observed=["monitor_events", "mode_spelt_with_capitals"])


if __name__ == "__main__":
    main()
