"""C08 — flow and proposal densities are consistent with their samples and normalised.

Three kinds of cases, all run in the case farm:

flow   one flow configuration (nessai.flowmodel.FlowModel) taken through the weight states
       fresh -> perturbed (every parameter + N(0, 0.3^2), weight matrices scaled by fan-in) -> trained (5 epochs)
       -> reset_model(weights=True) -> reset_model(weights=False, permutations=True) -> reset_model(weights=True, permutations=True).
       In every state: density attached to generated samples == density evaluated at them, inverse o forward == id,
       numpy-level FlowModel methods == an independent composition of the glasflow transforms + closed-form base density
       (vlib/oracles/flow_direct.py), also with an alternative latent distribution; in 2-d (float64) the integral of the density
       over the central box of one sample set equals the fraction of an independent sample set inside that box.
fp     FlowProposal / AugmentedFlowProposal: backward_pass(z) -> (x, log_q); forward_pass(x) -> (z', log_q'); z' == z,
       log_q' == log_q (alt - base correction for the n-ball latent prior); physical density == prime-space density x Jacobian.
ins    ImportanceFlowProposal after a tiny real importance-nested-sampler run: draw() table ==
       compute_meta_proposal_samples() == incremental update_log_q == the sampler's stored table == independent per-flow
       evaluation; rescale / inverse_rescale Jacobians paired.

Tolerances (DESIGN C08): float64 is the deciding dtype, 1e-8 * (1 + |v|) in every weight state.  float32 covers the casts with
2e-4 * (1 + |v|); a float32 disagreement is re-examined with the same weights cast to float64 and only counts if it persists
there (nessai has no dtype-specific code path; what disappears in float64 is rounding on an ill-conditioned flow).  States whose
batch-norm layers still have the initial zero running variance scale by 1/sqrt(1e-5) per layer (conditioning 1e5 for two layers):
they are skipped in float32, and in float64 when there are more than two such layers.

Not compared (counted in the evidence): samples further than 1000 median-absolute-deviations from the bulk; latent points of a
uniform base within a band of the cube faces; points in the clamp band of glasflow's Logit pre-transform; generated points within
1e-6 (relative) of a prior bound under a logit reparameterisation (sigmoid saturation) and within 1e-7 of a face of the unit
hypercube for the independent importance-proposal table (nessai clamps the logit there by design).
"""
import math
import os
import shutil
import time
import traceback

import numpy as np

from vlib.common import Check, assert_repo, rng_for

SVD_KEY = "C08:svd-linear-transform:fewer-than-5-inputs:NaN-at-initialisation"
TOL = {"float64": 1e-8, "float32": 2e-4}
# points of a uniform base distribution closer than this to a face of the unit cube are not compared: the round trip
# may put them on the other side of the discontinuity
FACE_BAND = {"float64": 1e-8, "float32": 1e-3}
STATES = ["fresh", "perturbed", "trained", "reset_weights", "reset_permutations", "reset_all"]
N_POINTS = 1500
GRID = 600


# ------------------------------------------------------------------------------------------------ generators
def core_cells():
    cells = []
    for ftype in ("realnvp", "nsf"):
        for lt in (None, "permutation", "lu", "svd"):
            cells.append((ftype, lt))
    cells.append(("maf", None))
    out = []
    for ftype, lt in cells:
        for d in (2, 3, 5):
            for dtype in ("float64", "float32"):
                out.append((ftype, lt, d, dtype))
    return out


def gen_flow_cfg(seed, n, quick):
    """Configuration number n: the core factors cycle through every (ftype, linear transform, d, dtype) cell (seeded order),
    every other option is drawn at random."""
    cells = core_cells()
    order = rng_for(seed, "C08", "cells").permutation(len(cells))
    ftype, lt, d, dtype = cells[int(order[n % len(cells)])]
    rng = rng_for(seed, "C08", "flowcfg", n)
    if not quick and rng.random() < 0.25:
        d = int(rng.choice([4, 8]))
    cfg = dict(ftype=ftype, d=int(d), dtype=dtype, n_blocks=int(rng.choice([1, 2, 2, 3])), n_neurons=int(rng.choice([4, 8, 16])),
               n_layers=int(rng.choice([1, 2])), via_kwargs=bool(rng.random() < 0.15))
    kw = {}
    bnb = bool(rng.random() < 0.45)
    kw["batch_norm_between_layers"] = bnb
    kw["batch_norm_within_layers"] = bool(rng.random() < 0.3)
    if rng.random() < 0.4:
        kw["activation"] = str(rng.choice(["relu", "tanh", "swish"]))
    dist = None
    if ftype != "maf":
        kw["linear_transform"] = lt
        dist = [None, None, "mvn", "uniform", "lars"][int(rng.integers(5))]
    if ftype == "realnvp":
        kw["net"] = str(rng.choice(["resnet", "mlp"]))
        # additive couplings under a uniform base leave nothing to train (constant density): nessai's trainer has no gradient to follow
        kw["use_volume_preserving"] = bool(rng.random() < 0.25) and dist != "uniform"
        if not bnb and rng.random() < 0.4:
            kw["actnorm"] = True
        m = rng.random()
        if m < 0.2:
            mask = rng.choice([-1, 1], size=d)
            if abs(mask.sum()) == d:  # a mask that updates nothing or everything is refused by the coupling transform
                mask[0] = -mask[0]
            kw["mask"] = [int(v) for v in mask]
        elif m < 0.35:
            mask = rng.choice([-1, 1], size=(cfg["n_blocks"], d))
            for row in mask:
                if abs(row.sum()) == d:
                    row[0] = -row[0]
            kw["mask"] = [[int(v) for v in row] for row in mask]
        p = rng.random()
        if p < 0.1:
            kw["pre_transform"] = "batch_norm"
        elif p < 0.2 and dtype == "float64":  # float32 cannot represent 1 - sigmoid(y) beyond |y| ~ 15: a rounding test, not a logic test
            kw["pre_transform"] = "logit"
    elif ftype == "nsf":
        kw["num_bins"] = int(rng.choice([4, 8]))
        kw["tail_bound"] = float(rng.choice([3.0, 5.0]))
        kw["apply_unconditional_transform"] = bool(rng.random() < 0.3)
    else:
        kw["use_random_permutations"] = bool(rng.random() < 0.5)
        kw["use_residual_blocks"] = bool(rng.random() < 0.6)
        kw["use_random_masks"] = bool(not kw["use_residual_blocks"] and rng.random() < 0.5)
    cfg["kwargs"] = kw
    cfg["distribution"] = dist
    if dist == "mvn":
        cfg["distribution_kwargs"] = dict(var=float(rng.choice([0.25, 2.0, 4.0])))
    elif dist == "lars":
        cfg["distribution_kwargs"] = dict(n_layers=1, n_neurons=int(rng.choice([4, 8])), truncation=int(rng.choice([20, 100])))
    else:
        cfg["distribution_kwargs"] = None
    cfg["alt"] = str(rng.choice(["mvn", "box"]))
    return cfg


def build_flow_config(cfg):
    fc = dict(ftype=cfg["ftype"], n_inputs=cfg["d"], n_neurons=cfg["n_neurons"], n_blocks=cfg["n_blocks"], n_layers=cfg["n_layers"])
    kw = {k: v for k, v in cfg["kwargs"].items()}
    if cfg["ftype"] == "maf":
        kw.pop("linear_transform", None)
    if cfg.get("via_kwargs"):
        fc["kwargs"] = kw  # the deprecated nested form is still accepted by configure_model
    else:
        fc.update(kw)
    if cfg.get("distribution"):
        fc["distribution"] = cfg["distribution"]
        if cfg.get("distribution_kwargs"):
            fc["distribution_kwargs"] = dict(cfg["distribution_kwargs"])
    return fc


def n_batch_norm_layers(cfg):
    kw = cfg["kwargs"]
    n = cfg["n_blocks"] if kw.get("batch_norm_between_layers") else 0
    if kw.get("pre_transform") == "batch_norm":
        n += 1
    return n


FP_REPARAMS = {
    "fallback-zscore": dict(),
    "default": dict(reparameterisations="default"),
    "logit": dict(reparameterisations="logit"),
    "null": dict(fallback_reparameterisation=None),
    "offset": dict(reparameterisations="offset"),
    "mixed": dict(reparameterisations={"x0": "default", "x1": "logit"}),
}


def gen_fp_case(seed, n, quick):
    rng = rng_for(seed, "C08", "fp", n)
    reps = list(FP_REPARAMS)
    lps = ["truncated_gaussian", "uniform_nball", "gaussian"]
    ftypes = ["realnvp", "maf", "nsf"]
    augmented = n % 5 == 4
    return dict(model=["G2u", "G3u", "G4u"][int(rng.integers(3))], reparam=reps[n % len(reps)], latent_prior=lps[(n // 5) % 3 if augmented else (n // len(reps) + n) % 3],
                ftype="realnvp" if augmented else ftypes[(n // 2 + n // 6) % 3], dtype=["float64", "float32"][(n + n // 6) % 2], bn=bool(rng.random() < 0.4),
                lt=None if augmented else [None, "permutation", "lu"][int(rng.integers(3))], reverse=bool(rng.random() < 0.2), augmented=augmented)


def gen_ins_case(seed, n, quick):
    rng = rng_for(seed, "C08", "ins", n)
    cfg = dict(model=["G2u", "G3u", "G2u", "G4u"][n % 4], reparam=["logit", None][(n // 2) % 2] if n % 3 else "logit",
               ftype=["realnvp", "nsf", "maf"][n % 3], dtype=["float64", "float32"][n % 2], reset_flow=[True, False, 2][int(rng.integers(3))],
               clip=bool(rng.random() < 0.3), weighted_kl=bool(rng.random() < 0.7))
    if n % 3 == 1:
        # a posterior piled against the prior bounds: generated points get clipped onto / clamped near the faces of the unit hypercube, which is where a
        # density evaluated at the raw flow output differs from the density of the stored (clipped) point
        cfg.update(model="G2e", reparam=[None, "logit"][(n // 3) % 2], clip=True if (n // 3) % 2 == 0 else cfg["clip"], ftype=["maf", "realnvp"][(n // 6) % 2])
    if n % 3 == 2:
        # zero prior density in part of the unit hypercube: draws are rejected by the proposal's second mask, so samples and table rows must be filtered together
        cfg.update(model="G2c")
    return cfg


# ------------------------------------------------------------------------------------------------ numerics
def rel(a, b):
    """max |a-b| / (1 + max(|a|,|b|)) over finite entries; (value, number compared)."""
    a = np.asarray(a, dtype=np.float64)
    b = np.asarray(b, dtype=np.float64)
    ok = np.isfinite(a) & np.isfinite(b)
    if not ok.any():
        return None, 0
    v = np.abs(a[ok] - b[ok]) / (1.0 + np.maximum(np.abs(a[ok]), np.abs(b[ok])))
    return float(v.max()), int(ok.sum())


def rel_scaled(a, b, scale):
    """Element-wise |a-b| / (scale_j + |a|): round trips are judged against the spread of the data, not against 1."""
    a = np.asarray(a, dtype=np.float64)
    b = np.asarray(b, dtype=np.float64)
    ok = np.isfinite(a) & np.isfinite(b)
    if not ok.any():
        return None, 0
    v = np.abs(a - b) / (scale[np.newaxis, :] + np.maximum(np.abs(a), np.abs(b)))
    return float(v[ok].max()), int(ok.all(axis=1).sum())


class Recorder:
    def __init__(self, tol):
        self.tol = tol
        self.problems = []
        self.metrics = {}
        self.counts = {}
        self.worst = 0.0        # largest disagreement / tolerance among decided comparisons
        self.state_worst = 0.0  # the same within the weight state being evaluated (folded into .worst once the state is decided)
        self.rounding_worst = 0.0  # float32 disagreements that the float64 re-examination resolved as rounding
        self.norm_worst = 0.0

    def fold(self, resolved_as_rounding=False):
        if resolved_as_rounding:
            self.rounding_worst = max(self.rounding_worst, self.state_worst)
        else:
            self.worst = max(self.worst, self.state_worst)
        self.state_worst = 0.0

    def bump(self, name, n=1):
        self.counts[name] = self.counts.get(name, 0) + int(n)

    def compare(self, name, key, a, b, ctx, counter, scale=None, factor=1.0):
        """One deciding comparison. Returns True when it really ran on finite values."""
        r, n = rel(a, b) if scale is None else rel_scaled(a, b, scale)
        if r is None:
            return False
        self.bump(counter, n)
        self.metrics[name] = max(self.metrics.get(name, 0.0), r)
        self.state_worst = max(self.state_worst, r / (self.tol * factor))
        if r > self.tol * factor:
            self.problems.append((key, f"{ctx}: {name} disagree by {r:.3e} (relative to 1+|v|; tolerance {self.tol * factor:.1e}, {n} points)"))
        return True


# ------------------------------------------------------------------------------------------------ flow cases
def perturb(model, gen):
    import torch

    with torch.no_grad():
        for p in model.parameters():
            # weight matrices: keep the gain of a layer below one (0.3 * sqrt(4 / fan-in)), otherwise deep conditioners push samples to 1e10 and
            # beyond, where float64 rounding alone exceeds any fixed tolerance; everything else (biases, scales, LU/SVD entries): 0.3
            sigma = 0.3 * min(1.0, math.sqrt(4.0 / p.shape[-1])) if p.dim() >= 2 else 0.3
            p.add_(sigma * torch.randn(p.shape, generator=gen, dtype=p.dtype))
    # parameters were changed behind the model's back: drop the cached LU weights exactly as a training step would
    model.train()
    model.eval()


def training_data(cfg, rng, n=600):
    d = cfg["d"]
    if cfg.get("distribution") == "uniform" or cfg["kwargs"].get("pre_transform") == "logit":
        return rng.uniform(0.15, 0.85, (n, d))
    scale = np.array([1.0, 0.3, 2.0, 0.7, 1.5, 1.0, 0.5, 1.2][:d])
    return rng.normal(0, 1, (n, d)) * scale + np.linspace(-1, 1, d)


def make_alt(cfg, z):
    """An alternative latent distribution with a closed-form log-density: (torch distribution, numpy reference function)."""
    import torch

    from nessai.utils.distributions import get_multivariate_normal, get_uniform_distribution

    d = cfg["d"]
    if cfg["alt"] == "mvn":
        var = 2.5
        return get_multivariate_normal(d, var=var), lambda zz: -0.5 * np.sum(zz * zz, axis=1) / var - 0.5 * d * math.log(2 * math.pi * var)
    r = float(1.1 * np.max(np.abs(z)) + 0.1)
    return get_uniform_distribution(d, r), lambda zz: np.where(np.all(np.abs(zz) <= r, axis=1), -d * math.log(2 * r), -np.inf)


def evaluate_state(fm, cfg, state, rec, rng, integrate):
    """All identities of the property on the flow as it stands. Returns (nontrivial, all_nonfinite)."""
    import torch

    from vlib.oracles import flow_direct as fd

    dist, dkw = cfg.get("distribution"), cfg.get("distribution_kwargs")
    logit_pre = cfg["kwargs"].get("pre_transform") == "logit"
    ctx = f"state={state}"
    x, lp_gen = fm.sample_and_log_prob(N_POINTS)
    rec.bump("flow_states_evaluated")
    fin = np.isfinite(lp_gen) & np.isfinite(x).all(axis=1)
    if not fin.any():
        return False, True
    if fin.mean() < 0.5:
        rec.problems.append(("C08:flow:mostly-non-finite-samples", f"{ctx}: only {fin.mean():.2%} of generated samples/densities are finite"))
    x, lp_gen = x[fin], lp_gen[fin]
    med = np.median(x, axis=0)
    spread = np.median(np.abs(x - med), axis=0) + 1e-300
    # points more than 1000 spreads from the bulk are not compared: intermediate values of that size make the round trip a rounding test
    keep = np.all(np.abs(x - med) <= 1e3 * spread, axis=1)
    rec.bump("outlier_points_not_compared", int((~keep).sum()))
    if logit_pre:  # glasflow's Logit clamps its input to [1e-6, 1 - 1e-6]: outside, forward is not the inverse of inverse
        inside = np.all((x > 2e-6) & (x < 1 - 2e-6), axis=1)
        rec.bump("logit_pre_transform_points_in_clamp_band", int((keep & ~inside).sum()))
        keep &= inside
    z = fm.forward_and_log_prob(x)[0]
    keep &= np.isfinite(z).all(axis=1)
    if dist == "uniform":
        band = FACE_BAND[cfg["dtype"]]
        inside = np.all((z > band) & (z < 1 - band), axis=1)
        rec.bump("uniform_base_points_in_face_band", int((keep & ~inside).sum()))
        keep &= inside
    if keep.sum() < 0.5 * len(keep):
        rec.bump("states_with_most_points_excluded")
        return False, False
    x, lp_gen = x[keep], lp_gen[keep]
    # ---- nessai's numpy-level interface (every call below sees the same batch)
    lp_eval = fm.log_prob(x)
    z, lp_fwd = fm.forward_and_log_prob(x)
    x_back, lp_z = fm.sample_and_log_prob(z=z)
    nt = rec.compare("generated-vs-evaluated log-density", "C08:flow:generated-density-differs-from-evaluated-density", lp_gen, lp_eval, ctx, "cmp_generated_vs_evaluated")
    rec.compare("inverse(forward(x)) vs x", "C08:flow:forward-inverse-round-trip", x_back, x, ctx, "cmp_round_trip", scale=spread)
    rec.compare("forward_and_log_prob vs log_prob", "C08:flowmodel:forward_and_log_prob-differs-from-log_prob", lp_fwd, lp_eval, ctx, "cmp_wrapper")
    rec.compare("sample_and_log_prob(z) vs log_prob", "C08:flowmodel:sample_and_log_prob(z)-differs-from-log_prob", lp_z, lp_eval, ctx, "cmp_wrapper")
    # ---- independent evaluation: composition of the transforms + closed-form base density
    fm.model.eval()
    z_ref, lp_ref = fd.reference_log_prob_forward(fm.model, x, dist, dkw)
    x_ref, ld_inv = fd.reference_inverse(fm.model, z)
    base_z = fd.base_log_prob(fm.model, z, dist, dkw)
    rec.compare("FlowModel.log_prob vs direct evaluation", "C08:flowmodel:log_prob-differs-from-direct-evaluation", lp_eval, lp_ref, ctx, "cmp_direct")
    rec.compare("FlowModel.forward_and_log_prob density vs direct evaluation", "C08:flowmodel:forward_and_log_prob-differs-from-direct-evaluation", lp_fwd, lp_ref, ctx, "cmp_direct")
    rec.compare("FlowModel.forward_and_log_prob latent vs direct evaluation", "C08:flowmodel:forward_and_log_prob-differs-from-direct-evaluation", z, z_ref, ctx, "cmp_direct")
    rec.compare("FlowModel.sample_and_log_prob(z) density vs direct evaluation", "C08:flowmodel:sample_and_log_prob(z)-differs-from-direct-evaluation", lp_z, base_z - ld_inv, ctx, "cmp_direct")
    rec.compare("FlowModel.sample_and_log_prob(z) samples vs direct evaluation", "C08:flowmodel:sample_and_log_prob(z)-differs-from-direct-evaluation", x_back, x_ref, ctx, "cmp_direct", scale=spread)
    rec.compare("generated log-density vs direct evaluation", "C08:flow:generated-density-differs-from-direct-evaluation", lp_gen, lp_ref, ctx, "cmp_direct")
    # ---- alternative latent distribution
    alt, alt_ref = make_alt(cfg, z)
    x_alt, lp_alt = fm.sample_and_log_prob(z=z, alt_dist=alt)
    rec.compare("sample_and_log_prob(z, alt_dist) vs alt(z) - log|det|", "C08:flowmodel:sample_and_log_prob(z,alt_dist)-differs-from-direct-evaluation", lp_alt, alt_ref(z) - ld_inv, ctx, "cmp_alt_dist")
    rec.compare("sample_and_log_prob(z, alt_dist) samples vs direct evaluation", "C08:flowmodel:sample_and_log_prob(z,alt_dist)-differs-from-direct-evaluation", x_alt, x_ref, ctx, "cmp_alt_dist", scale=spread)
    zt = fd.to_tensor(z)
    with torch.no_grad():
        x_t, lp_t = fm.model.sample_and_log_prob(64)
        ok_t = torch.isfinite(lp_t) & torch.from_numpy(np.all(np.abs(x_t.numpy() - med) <= 1e3 * spread, axis=1))
        if logit_pre:
            ok_t &= ((x_t > 2e-6) & (x_t < 1 - 2e-6)).all(dim=1)
        if dist == "uniform":
            zz = fm.model.forward(x_t)[0]
            ok_t &= ((zz > FACE_BAND[cfg["dtype"]]) & (zz < 1 - FACE_BAND[cfg["dtype"]])).all(dim=1)
        if ok_t.any():
            rec.compare("model.sample_and_log_prob vs model.log_prob (torch)", "C08:flow:generated-density-differs-from-evaluated-density", lp_t[ok_t].numpy(), fm.model.log_prob(x_t[ok_t]).numpy(), ctx, "cmp_generated_vs_evaluated")
        rec.compare("model.base_distribution_log_prob vs closed form", "C08:flow:base-density-differs-from-closed-form", fm.model.base_distribution_log_prob(zt).numpy(), base_z, ctx, "cmp_direct")
    # ---- two dimensions: the density integrates to one
    if integrate:
        normalisation(fm, cfg, state, rec)
    return nt, False


def normalisation(fm, cfg, state, rec):
    """2-d: the integral of exp(log_prob) over the central box (5 %..95 % quantiles of one sample set on each axis) equals the fraction of an
    independent sample set that falls into the box.  The box is the bulk on purpose: affine flows have tails thousands of spreads long and a box
    that holds them cannot be resolved by any grid."""
    from vlib.oracles import flow_direct as fd

    if cfg["kwargs"].get("pre_transform") == "logit":  # density ~ 1/(x(1-x)) piles up in the clamp band at the faces: not resolvable on a grid
        rec.bump("normalisation_skipped_logit_pre_transform")
        return
    xa = fm.sample_and_log_prob(20000)[0]
    xb = fm.sample_and_log_prob(20000)[0]
    xa = xa[np.isfinite(xa).all(axis=1)]
    xb = xb[np.isfinite(xb).all(axis=1)]
    if len(xa) < 19000 or len(xb) < 19000:
        return
    lo, hi = np.quantile(xa, 0.05, axis=0), np.quantile(xa, 0.95, axis=0)
    if not np.all(hi > lo):
        return
    mass = float(np.mean(np.all((xb >= lo) & (xb <= hi), axis=1)))
    # allowance: 0.02 (DESIGN) covers the binomial error of the empirical mass (<= 0.004 at 2e4 points) and the quadrature error; the LARS
    # normalising constant is itself a Monte-Carlo estimate (10 x 10^4 draws of an acceptance probability in (0, 1)): 0.05
    allow = 0.05 if cfg.get("distribution") == "lars" else 0.02
    # 600 x 600 cells that follow the marginal quantiles (60 quantile intervals x 10); refined to 1800 x 1800 when the comparison fails
    integral, bad = fd.grid_integral_edges(fm.log_prob, fd.quantile_edges(xa, 0.05, 0.95, GRID // 10, 10))
    refined, coarse = False, integral
    if not abs(integral - mass) <= allow:
        integral, bad = fd.grid_integral_edges(fm.log_prob, fd.quantile_edges(xa, 0.05, 0.95, 3 * GRID // 10, 10))
        refined = True
    rec.bump("normalisation_refined", int(refined))
    if refined and not abs(integral - mass) <= allow and abs(integral - coarse) > 0.25 * allow:
        # the two resolutions do not agree with each other: the quadrature has not converged (needle-like density), nothing can be said
        rec.bump("normalisation_quadrature_not_converged")
        rec.metrics.setdefault("integrals", []).append(dict(state=state, integral=round(integral, 5), coarse=round(coarse, 5), mass_in_box=round(mass, 5), converged=False))
        return
    rec.bump("cmp_normalisation_2d")
    rec.metrics.setdefault("integrals", []).append(dict(state=state, integral=round(integral, 5), mass_in_box=round(mass, 5), refined=refined, nonfinite_grid_points=bad))
    rec.norm_worst = max(rec.norm_worst, abs(integral - mass) / allow if integral == integral else np.inf)
    if not abs(integral - mass) <= allow:
        rec.problems.append(("C08:flow:2d-density-not-normalised", f"state={state}: integral of exp(log_prob) over the central box is {integral:.5f} ({coarse:.5f} on the coarser grid) "
                             f"but {mass:.5f} of the samples fall into it (allowed difference {allow}, {3 * GRID}^2 quantile-spaced cells)"))


def adjudicate_float32(fm, cfg, state, rec, rng, before):
    """float64 is the deciding dtype (DESIGN C08): a float32 disagreement is re-examined with the *same weights* cast to float64.  nessai has
    no dtype-specific code path beyond tensor casts, so a logic error shows up there as well (to 1e-8), while float32 rounding on an
    ill-conditioned flow (batch-norm variance ~1e-6, samples at 1e3 spreads, saturated sigmoids) disappears."""
    import copy

    import torch

    model32 = fm.model
    model64 = copy.deepcopy(model32).double()
    model64.device = model32.device
    rec64 = Recorder(TOL["float64"])
    torch.set_default_dtype(torch.float64)
    try:
        fm.model = model64
        model64.train()
        model64.eval()
        nt, allnan = evaluate_state(fm, dict(cfg, dtype="float64"), state + "/same-weights-in-float64", rec64, rng, integrate=False)
    finally:
        fm.model = model32
        torch.set_default_dtype(torch.float32)
    rec.bump("float32_disagreements_re_examined_in_float64")
    for k, v in rec64.counts.items():
        rec.bump("f64recheck_" + k, v)
    if rec64.problems or allnan or not nt:
        # confirmed (or not decidable) in float64: keep the float32 witnesses and add the float64 ones
        rec.problems.extend(rec64.problems)
        return nt
    rec.fold(resolved_as_rounding=True)
    del rec.problems[before:]
    rec.bump("float32_disagreements_resolved_as_rounding")
    return True


def flow_case(case, outdir):
    import torch

    from nessai.flowmodel import FlowModel
    from nessai.utils.torchutils import set_torch_default_dtype

    cfg = case["cfg"]
    set_torch_default_dtype(cfg["dtype"])
    rng = rng_for(case["seed"], "C08", "flowcase", case["n"])
    tseed = int(rng.integers(2**31 - 1))
    torch.manual_seed(tseed)
    np.random.seed(tseed)
    gen = torch.Generator().manual_seed(tseed + 1)
    rec = Recorder(TOL[cfg["dtype"]])
    res = dict(kind="flow", n=case["n"], cfg=cfg, states={}, nontrivial=False, excluded=[])
    fm = FlowModel(flow_config=build_flow_config(cfg), training_config=dict(max_epochs=5, patience=5, batch_size=200), output=outdir)
    fm.initialise()
    lars = cfg.get("distribution") == "lars"
    svd_small = cfg["kwargs"].get("linear_transform") == "svd" and cfg["d"] < 5 and cfg["ftype"] != "maf"
    nbn = n_batch_norm_layers(cfg)
    data = training_data(cfg, rng)
    last_finite = True
    for state in STATES:
        if state == "perturbed":
            perturb(fm.model, gen)
        elif state == "trained":
            fm.train(data, plot=False)
        elif state == "reset_weights":
            # Two thirds of the cases reach the reset with the flow used in one direction only since its last training (as a proposal that only generates, or only
            # evaluates, does): anything cached for that direction must not survive the reset
            if case["n"] % 3 == 1:
                fm.train(data, plot=False)
                fm.log_prob(data[:64])
                rec.bump("resets_after_evaluation_only_use")
            elif case["n"] % 3 == 2:
                fm.train(data, plot=False)
                fm.sample_and_log_prob(64)
                rec.bump("resets_after_generation_only_use")
            fm.reset_model(weights=True)
        elif state == "reset_permutations":
            fm.reset_model(weights=False, permutations=True)
        elif state == "reset_all":
            fm.reset_model(weights=True, permutations=True)
        if lars and state != "trained":
            fm.finalise()  # a LARS base is only normalised once its constant has been estimated (training does this itself)
        zero_var = nbn > 0 and state in ("fresh", "perturbed", "reset_all")  # glasflow's BatchNorm starts with running_var = 0
        if state in ("fresh", "reset_all"):
            xs, lps = fm.sample_and_log_prob(200)
            rec.bump("initialisation_finiteness_checked")
            if not (np.isfinite(lps) & np.isfinite(xs).all(axis=1)).any():
                if svd_small and (np.isnan(xs).any() or np.isnan(lps).any()):
                    rec.problems.append((SVD_KEY, f"state={state}: no sample of the freshly initialised flow comes with finite coordinates and a finite density (NaN) "
                                         f"(linear_transform='svd', {cfg['d']} inputs, num_householder=10)"))
                else:
                    rec.problems.append(("C08:flow:non-finite-at-initialisation", f"state={state}: no sample of the freshly initialised flow comes with finite coordinates and a finite density"))
                res["states"][state] = "all-non-finite"
                continue
        if zero_var and (cfg["dtype"] == "float32" or nbn > 2):
            res["excluded"].append(state)
            continue
        try:
            before = len(rec.problems)
            nt, allnan = evaluate_state(fm, cfg, state, rec, rng, integrate=(cfg["d"] == 2 and cfg["dtype"] == "float64"))
            if cfg["dtype"] == "float32" and len(rec.problems) > before:
                nt = adjudicate_float32(fm, cfg, state, rec, rng, before)
        except Exception as e:
            fn = [ln.split(", in ")[-1].strip() for ln in traceback.format_exc().splitlines() if ln.strip().startswith("File ")][-1:]
            rec.problems.append((f"C08:flow:exception:{type(e).__name__}@{fn[0] if fn else '?'}", f"state={state}: {type(e).__name__}: {str(e)[:200]}"))
            res["states"][state] = "exception"
            continue
        rec.fold()
        if allnan:
            res["states"][state] = "all-non-finite"
            if state in ("fresh", "reset_weights", "reset_permutations", "reset_all") and last_finite:
                # nessai itself produced these weights from a flow that was finite a moment ago
                rec.problems.append(("C08:flow:non-finite-after-reset_model", f"state={state}: no generated sample has finite coordinates and a finite density, "
                                     "although the flow was finite before reset_model"))
            else:
                # weights that this harness perturbed or trained into overflow say nothing about nessai
                rec.bump("states_all_non_finite_after_perturbation_or_training")
            last_finite = False
            continue
        last_finite = True
        res["states"][state] = "compared" if nt else "not-compared"
        res["nontrivial"] = res["nontrivial"] or bool(nt)
    res.update(problems=rec.problems, metrics=rec.metrics, counts=rec.counts, worst=rec.worst, rounding_worst=rec.rounding_worst, norm_worst=rec.norm_worst)
    return res


# ------------------------------------------------------------------------------------------------ FlowProposal cases
def fp_case(case, outdir):
    import torch

    from nessai.proposal import FlowProposal
    from nessai.utils import draw_gaussian, draw_nsphere, draw_truncated_gaussian
    from nessai.utils.torchutils import set_torch_default_dtype
    from vlib import zoo

    c = case["cfg"]
    set_torch_default_dtype(c["dtype"])
    rng = rng_for(case["seed"], "C08", "fpcase", case["n"])
    tseed = int(rng.integers(2**31 - 1))
    torch.manual_seed(tseed)
    np.random.seed(tseed)
    rec = Recorder(TOL[c["dtype"]])
    model = zoo.make(c["model"])
    kw = dict(FP_REPARAMS[c["reparam"]])
    if c["reparam"] == "mixed":
        kw["reparameterisations"] = {model.names[0]: "default", model.names[1]: "logit"}
    fcfg = dict(n_blocks=2, n_neurons=8, n_layers=1, ftype=c["ftype"], batch_norm_between_layers=c["bn"])
    if c["ftype"] != "maf":
        fcfg["linear_transform"] = c["lt"]
    extra = {}
    if c["latent_prior"] != "truncated_gaussian":  # constant-volume mode is only defined for the truncated Gaussian
        extra["constant_volume_mode"] = False
    cls = FlowProposal
    if c.get("augmented"):
        from nessai.proposal.augmented import AugmentedFlowProposal as cls

        extra["augment_dims"] = 2
        # the augmented proposal installs its own coupling mask, which only RealNVP accepts
        fcfg = dict(n_blocks=2, n_neurons=8, n_layers=1, ftype="realnvp", batch_norm_between_layers=c["bn"], linear_transform=None)
    fp = cls(model, output=outdir, poolsize=100, plot=False, flow_config=fcfg, training_config=dict(max_epochs=15, patience=8),
             latent_prior=c["latent_prior"], reverse_reparameterisations=c["reverse"], **extra, **kw)
    fp.initialise()
    pr = model.sample_prior(3000, rng)
    pr["logP"] = model.raw_log_prior(pr)
    pr["logL"] = model.raw_log_likelihood(pr)
    live = pr[np.argsort(pr["logL"])][-600:]
    fp.train(live, plot=False)
    if case["n"] % 2:
        # a second training on other points after the maps have been used: data-dependent parts of the reparameterisations (updated bounds, shifts, scales)
        # change, anything cached from the first use must not survive
        fp.forward_pass(live[:64].copy(), rescale=True, compute_radius=False)
        fp.backward_pass(draw_truncated_gaussian(fp.dims, 1.5, N=64, fuzz=1.0), rescale=True)
        fp.train(live[-250:], plot=False)
        rec.bump("fp_cases_with_two_trainings")
    fp.r = 2.0
    fp.alt_dist = fp.get_alt_distribution()
    n = 2000
    if c["latent_prior"] == "uniform_nball":
        z = draw_nsphere(fp.dims, r=fp.r, N=n, fuzz=fp.fuzz)
    elif c["latent_prior"] == "gaussian":
        z = draw_gaussian(fp.dims, N=n)
    else:
        z = draw_truncated_gaussian(fp.dims, fp.r, N=n, fuzz=fp.fuzz)
    if c.get("augmented"):
        return augmented_case(case, fp, model, z, rec)
    x, log_q, zk = fp.backward_pass(z, rescale=True, return_z=True)
    res = dict(kind="fp", n=case["n"], cfg=c, kept=int(len(x)), nontrivial=False)
    if c["reparam"] in ("logit", "mixed") and len(x):
        # a generated point closer than 1e-6 (relative) to a prior bound sits where sigmoid saturates: 1 - u carries a relative rounding
        # error of eps / (1 - u), and at u == 1 exactly the map is not invertible at all
        names = model.names if c["reparam"] == "logit" else model.names[1:2]
        u = np.column_stack([(x[nm] - model.bounds[nm][0]) / (model.bounds[nm][1] - model.bounds[nm][0]) for nm in names])
        ok = np.all((u > 1e-6) & (u < 1 - 1e-6), axis=1) & np.isfinite(log_q)
        rec.bump("fp_points_in_logit_saturation_band", int((~ok).sum()))
        x, log_q, zk = x[ok], log_q[ok], zk[ok]
    ctx = f"{len(x)} of {n} latent points inside the prior"
    if len(x):
        z2, log_q2 = fp.forward_pass(x.copy(), rescale=True, compute_radius=False)
        corr = 0.0
        if fp.alt_dist is not None:
            zt = torch.from_numpy(zk).type(torch.get_default_dtype())
            with torch.no_grad():
                corr = (fp.alt_dist.log_prob(zt) - fp.flow.model.base_distribution_log_prob(zt)).numpy().astype(np.float64)
            rec.bump("fp_alt_dist_corrections")
        res["nontrivial"] = rec.compare("FlowProposal backward_pass density vs forward_pass density", "C08:flowproposal:backward-density-differs-from-forward-density",
                                        log_q, log_q2 + corr, ctx, "cmp_flowproposal_density")
        rec.compare("FlowProposal forward_pass(backward_pass(z)) vs z", "C08:flowproposal:latent-round-trip", z2, zk, ctx, "cmp_flowproposal_latent")
        # the two passes without the reparameterisation: the difference between the two pairs is exactly the Jacobian pairing
        xp, log_qp = fp.backward_pass(zk, rescale=False)
        z3, log_qp2 = fp.forward_pass(xp.copy(), rescale=False)
        if len(xp) == len(zk):
            rec.compare("FlowProposal prime-space backward vs forward density", "C08:flowproposal:prime-space-backward-density-differs-from-forward-density",
                        log_qp, log_qp2 + corr, ctx, "cmp_flowproposal_density")
            xr, lj = fp.rescale(x.copy())
            xb, lji = fp.inverse_rescale(xr.copy())
            rec.compare("FlowProposal rescale Jacobian vs -inverse_rescale Jacobian", "C08:flowproposal:rescale-jacobians-not-paired", lj, -lji, ctx, "cmp_flowproposal_jacobian",
                        factor=1e-8 / rec.tol * 100)
            rec.compare("FlowProposal physical density = prime density x Jacobian", "C08:flowproposal:density-differs-from-flow-density-times-jacobian",
                        log_q, log_qp + lj, ctx, "cmp_flowproposal_density")
        res["mean_abs_log_q"] = float(np.mean(np.abs(log_q)))
    rec.fold()
    res.update(problems=rec.problems, metrics=rec.metrics, counts=rec.counts, worst=rec.worst)
    return res


def augmented_case(case, fp, model, z, rec):
    """AugmentedFlowProposal (its own copy of backward_pass): the auxiliary coordinates it generated are carried through the deterministic
    base rescaling, so that the forward density is evaluated at exactly the point that was generated."""
    import torch

    c = case["cfg"]
    x, log_q = fp.backward_pass(z, rescale=True)
    res = dict(kind="fp", n=case["n"], cfg=c, kept=int(len(x)), nontrivial=False)
    if c["reparam"] in ("logit", "mixed") and len(x):
        names = model.names if c["reparam"] == "logit" else model.names[1:2]
        u = np.column_stack([(x[nm] - model.bounds[nm][0]) / (model.bounds[nm][1] - model.bounds[nm][0]) for nm in names])
        ok = np.all((u > 1e-6) & (u < 1 - 1e-6), axis=1) & np.isfinite(log_q)
        rec.bump("fp_points_in_logit_saturation_band", int((~ok).sum()))
        x, log_q = x[ok], log_q[ok]
    ctx = f"augmented, {len(x)} of {len(z)} latent points inside the prior"
    if len(x):
        xp, lj = fp._base_rescale(x.copy(), compute_radius=False)
        for an in fp.augment_parameters:
            xp[an] = x[an]
        z2, log_q2 = fp.forward_pass(xp, rescale=False)
        log_q2 = log_q2 + lj
        corr = 0.0
        if fp.alt_dist is not None:
            zt = torch.from_numpy(z2).type(torch.get_default_dtype())
            with torch.no_grad():
                corr = (fp.alt_dist.log_prob(zt) - fp.flow.model.base_distribution_log_prob(zt)).numpy().astype(np.float64)
            rec.bump("fp_alt_dist_corrections")
        res["nontrivial"] = rec.compare("AugmentedFlowProposal backward_pass density vs forward density", "C08:augmentedflowproposal:backward-density-differs-from-forward-density",
                                        log_q, log_q2 + corr, ctx, "cmp_augmented_density")
        if len(x) == len(z):
            rec.compare("AugmentedFlowProposal forward(backward_pass(z)) vs z", "C08:augmentedflowproposal:latent-round-trip", z2, z, ctx, "cmp_flowproposal_latent")
        xpb, log_qp = fp.backward_pass(z2, rescale=False)
        if len(xpb) == len(z2):
            rec.compare("AugmentedFlowProposal physical density = prime density x Jacobian", "C08:augmentedflowproposal:density-differs-from-flow-density-times-jacobian",
                        log_q, log_qp + lj, ctx, "cmp_augmented_density")
        res["mean_abs_log_q"] = float(np.mean(np.abs(log_q)))
    rec.fold()
    res.update(problems=rec.problems, metrics=rec.metrics, counts=rec.counts, worst=rec.worst)
    return res


# ------------------------------------------------------------------------------------------------ importance proposal cases
def ins_case(case, outdir):
    import torch
    from scipy.special import logsumexp

    from nessai.flowsampler import FlowSampler
    from vlib import zoo
    from vlib.oracles import flow_direct as fd

    c = case["cfg"]
    rng = rng_for(case["seed"], "C08", "inscase", case["n"])
    tseed = int(rng.integers(2**31 - 1))
    rec = Recorder(TOL[c["dtype"]])
    model = zoo.make(c["model"])
    fs = FlowSampler(model, importance_nested_sampler=True, nlive=200, min_samples=50, max_iteration=3, plot=False, checkpointing=False,
                     signal_handling=False, seed=tseed, flow_config=dict(n_blocks=2, n_neurons=4, n_layers=1, ftype=c["ftype"]),
                     training_config=dict(max_epochs=20, patience=5), output=outdir, torch_dtype=c["dtype"], reparameterisation=c["reparam"],
                     reset_flow=c["reset_flow"], clip=c["clip"], weighted_kl=c["weighted_kl"])
    fs.run(plot=False, save=False)
    ip = fs.ns.proposal
    res = dict(kind="ins", n=case["n"], cfg=c, levels=int(ip.flow.n_models), nontrivial=False)
    if ip.flow.n_models < 2 or any(np.isnan(w) for w in ip.weights.values()):
        res.update(problems=[], metrics={}, counts={}, worst=0.0, not_reached=f"{ip.flow.n_models} levels, weights {dict(ip.weights)}")
        return res
    weights = ip.weights_array
    eps = 1e-7

    def reference_table(samples):
        u = np.column_stack([samples[nm] for nm in model.names]).astype(np.float64)
        interior = np.all((u > eps) & (u < 1 - eps), axis=1)
        if c["reparam"] == "logit":
            uc = np.clip(u, 1e-300, 1 - 1e-16)
            xp = np.log(uc) - np.log1p(-uc)
            lj = np.sum(-np.log(uc) - np.log1p(-uc), axis=1)
        else:
            xp, lj = u.copy(), np.zeros(len(u))
        tab = np.zeros((len(u), ip.n_proposals))
        for i, m in enumerate(ip.flow.models):
            m.eval()
            _, lp = fd.reference_log_prob_forward(m, xp, None)
            tab[:, i + 1] = lp + lj
        return tab, interior

    for source in ("draw", "draw_from_flows", "training_samples"):
        if source == "draw":
            s, lq = ip.draw(600)
        elif source == "draw_from_flows":
            # samples from the whole mixture (public method; every level incl. the prior level), with the table of per-level densities
            s, lq, _counts = ip.draw_from_flows(600, weights=np.asarray(weights, dtype=float))   # (the default weights=None path divides the dict of weights: stale, not a density question)
            logQ2, lq2 = ip.compute_meta_proposal_samples(s)
            ref, interior = reference_table(s)
            ctx = f"{source}, {len(s)} samples, {ip.n_proposals} proposals"
            rec.bump("ins_points_in_eps_band", int((~interior).sum()))
            rec.compare("draw_from_flows() log_q table vs compute_meta_proposal_samples()", "C08:importance:draw_from_flows-table-differs-from-recomputed-table", lq, lq2, ctx, "cmp_ins_table")
            rec.compare("draw_from_flows() log_q table vs independent per-flow evaluation", "C08:importance:draw_from_flows-table-differs-from-direct-evaluation", lq[interior], ref[interior], ctx, "cmp_ins_direct")
            continue
        else:
            s = fs.ns.training_samples.samples.copy()
            lq = None
            stored = fs.ns.training_samples.log_q
        ctx = f"{source}, {len(s)} samples, {ip.n_proposals} proposals"
        logQ2, lq2 = ip.compute_meta_proposal_samples(s)
        ref, interior = reference_table(s)
        rec.bump("ins_points_in_eps_band", int((~interior).sum()))
        if lq is not None:
            res["nontrivial"] = rec.compare("draw() log_q table vs compute_meta_proposal_samples()", "C08:importance:draw-table-differs-from-recomputed-table", lq, lq2, ctx, "cmp_ins_table") or res["nontrivial"]
            rec.compare("draw() logQ field vs compute_meta_proposal_samples()", "C08:importance:draw-logQ-differs-from-recomputed-logQ", s["logQ"], logQ2, ctx, "cmp_ins_table")
            rec.compare("draw() logQ field vs logsumexp of its own table", "C08:importance:logQ-differs-from-weighted-sum-of-table", s["logQ"], logsumexp(lq, b=weights, axis=1), ctx, "cmp_ins_table")
            rec.compare("draw() logW vs logU - logQ", "C08:importance:logW-differs-from-logU-minus-logQ", s["logW"], s["logU"] - s["logQ"], ctx, "cmp_ins_table")
            rec.compare("draw() log_q table vs independent per-flow evaluation", "C08:importance:draw-table-differs-from-direct-evaluation", lq[interior], ref[interior], ctx, "cmp_ins_direct")
        if lq is None and stored is not None and np.shape(stored) == lq2.shape:
            # the sampler's own table was built column by column with update_log_q as the levels were added
            rec.compare("sampler's incrementally built log_q table vs compute_meta_proposal_samples()", "C08:importance:stored-table-differs-from-recomputed-table", stored, lq2, ctx, "cmp_ins_stored")
        upd = ip.update_log_q(s, lq2[:, :-1].copy())
        rec.compare("incremental update_log_q vs compute_meta_proposal_samples()", "C08:importance:update_log_q-differs-from-recomputed-table", upd, lq2, ctx, "cmp_ins_update")
        rec.compare("compute_meta_proposal_samples() table vs independent per-flow evaluation", "C08:importance:recomputed-table-differs-from-direct-evaluation", lq2[interior], ref[interior], ctx, "cmp_ins_direct")
        rec.compare("compute_meta_proposal_samples() logQ vs weighted logsumexp of the independent table", "C08:importance:logQ-differs-from-weighted-sum-of-table",
                    logQ2[interior], logsumexp(ref[interior], b=weights, axis=1), ctx, "cmp_ins_direct")
        rec.compare("update_log_q column vs independent per-flow evaluation", "C08:importance:update_log_q-differs-from-direct-evaluation", upd[interior, -1], ref[interior, -1], ctx, "cmp_ins_direct")
        xp, lj = ip.rescale(s)
        sb, lji = ip.inverse_rescale(xp)
        ok = interior
        rec.compare("importance rescale Jacobian vs -inverse_rescale Jacobian", "C08:importance:rescale-jacobians-not-paired", lj[ok], -lji[ok], ctx, "cmp_ins_jacobian", factor=1e-8 / rec.tol * 100)
        ub = np.column_stack([sb[nm] for nm in model.names])
        u = np.column_stack([s[nm] for nm in model.names])
        rec.compare("importance inverse_rescale(rescale(x)) vs x", "C08:importance:rescale-round-trip", ub[ok], u[ok], ctx, "cmp_ins_jacobian", factor=1e-8 / rec.tol * 100)
    rec.fold()
    res.update(problems=rec.problems, metrics=rec.metrics, counts=rec.counts, worst=rec.worst)
    try:
        model.close_pool()
    except Exception:
        pass
    return res


# ------------------------------------------------------------------------------------------------ farm worker
def worker(case):
    assert_repo()
    import torch

    from vlib.runs import quiet_logging, reset_globals

    quiet_logging()
    reset_globals()
    torch.set_num_threads(1)
    outdir = case["outdir"]
    shutil.rmtree(outdir, ignore_errors=True)
    os.makedirs(outdir, exist_ok=True)
    t0 = time.time()
    try:
        fn = dict(flow=flow_case, fp=fp_case, ins=ins_case)[case["kind"]]
        res = fn(case, outdir)
        res["wall"] = round(time.time() - t0, 2)
        return res
    except Exception as e:
        tb = traceback.format_exc()
        fnn = [ln.split(", in ")[-1].strip() for ln in tb.splitlines() if ln.strip().startswith("File ") and "/nessai/" in ln][-1:]
        return dict(kind=case["kind"], n=case["n"], cfg=case["cfg"], nontrivial=False, metrics={}, counts={}, worst=0.0,
                    problems=[(f"C08:{case['kind']}:exception:{type(e).__name__}@{fnn[0] if fnn else 'harness'}", f"{type(e).__name__}: {str(e)[:300]} :: {tb[-600:]}")])
    finally:
        reset_globals()
        shutil.rmtree(outdir, ignore_errors=True)


# ------------------------------------------------------------------------------------------------ main
def build_cases(chk):
    quick = chk.quick
    nflow, nfp, nins = (80, 24, 6) if quick else (900, 120, 36)
    cases = []
    for n in range(nins):  # longest first
        cases.append(dict(kind="ins", n=n, seed=chk.seed, cfg=gen_ins_case(chk.seed, n, quick)))
    for n in range(nfp):
        cases.append(dict(kind="fp", n=n, seed=chk.seed, cfg=gen_fp_case(chk.seed, n, quick)))
    for n in range(nflow):
        cases.append(dict(kind="flow", n=n, seed=chk.seed, cfg=gen_flow_cfg(chk.seed, n, quick)))
    # longest first: importance runs, then the 2-d float64 flows (six quadratures each)
    cases.sort(key=lambda c: 0 if c["kind"] == "ins" else 1 if (c["kind"] == "flow" and c["cfg"]["d"] == 2 and c["cfg"]["dtype"] == "float64") else 2)
    for i, c in enumerate(cases):
        c["outdir"] = os.path.join(chk.scratch, f"case-{c['kind']}-{c['n']}")
    return cases


def ident_of(r):
    c = r["cfg"]
    if r["kind"] == "flow":
        return ("flow", c["ftype"], c["kwargs"].get("linear_transform"), c["d"], c["dtype"], c["kwargs"].get("batch_norm_between_layers"), c.get("distribution"),
                c["n_blocks"], c["kwargs"].get("net"), c["kwargs"].get("actnorm", False), "mask" in c["kwargs"])
    return (r["kind"],) + tuple(str(c[k]) for k in sorted(c))


def main():
    chk = Check("C08", "exploration", description=__doc__)
    assert_repo()
    from vlib.farm import run_cases

    if chk.replay_case:
        case = dict(chk.replay_case["case"])
        case["outdir"] = os.path.join(chk.scratch, "replay")
        r = worker(case)
        for key, what in r.get("problems", []):
            print(f"[C08] replay witness key={key}: {what}")
        print({k: r.get(k) for k in ("kind", "n", "cfg", "states", "metrics", "worst")})
        if r.get("problems"):
            print(f"VIOLATION property=C08 replay={chk.args.replay}")
        raise SystemExit(1 if r.get("problems") else 0)

    cases = build_cases(chk)
    if chk.args.only:
        cases = [c for c in cases if chk.args.only in f"{c['kind']}-{c['n']}"]
    results = run_cases(cases, "checks.c08:worker", chk.scratch, nproc=chk.args.nproc, timeout=600 if chk.quick else 1200)
    worst = {"float64": 0.0, "float32": 0.0}
    not_reached, excluded = [], 0
    rounding_worst, norm_worst = 0.0, 0.0
    witnesses = {}
    svd_cells, svd_seen = 0, 0
    for c, r in zip(cases, results):
        name = f"{c['kind']}-{c['n']}"
        if not isinstance(r, dict) or "problems" not in r:
            chk.note_inconclusive(f"{name}: {str(r)[:300]}")
            chk.evaluations += 1
            continue
        chk.merge_counters(r.get("counts"))
        dtype = r["cfg"]["dtype"]
        worst[dtype] = max(worst[dtype], float(r.get("worst") or 0.0))
        rounding_worst = max(rounding_worst, float(r.get("rounding_worst") or 0.0))
        norm_worst = max(norm_worst, float(r.get("norm_worst") or 0.0))
        if r.get("not_reached"):
            not_reached.append(f"{name}: {r['not_reached']}")
        excluded += len(r.get("excluded", []))
        sample = None
        if c["n"] % 17 == 0:
            sample = dict(case=name, cfg=r["cfg"], states=r.get("states"), metrics=r.get("metrics"))
        chk.case_done(ident=ident_of(r), nontrivial=bool(r.get("nontrivial")), sample=sample)
        chk.count(f"cases_{c['kind']}")
        replay = {k: c[k] for k in ("kind", "n", "seed", "cfg")}
        for key, what in r["problems"]:
            witnesses[key] = witnesses.get(key, 0) + 1
            if witnesses[key] <= 3:  # three replay files per mechanism are enough; the rest is counted
                chk.violation(key, f"{name} {compact(r['cfg'])}: {what}", replay)
    chk.extra["worst_margin"] = {k: f"largest decided disagreement / tolerance = {v:.3g} (tolerance {TOL[k]:g} x (1+|v|))" for k, v in worst.items()}
    chk.extra["worst_margin"]["float32 resolved as rounding by the float64 re-examination"] = f"largest disagreement / float32 tolerance = {rounding_worst:.3g}"
    chk.extra["worst_margin"]["2-d normalisation"] = f"largest |integral - empirical mass| / allowance = {norm_worst:.3g}"
    chk.extra["not_reached"] = not_reached
    chk.extra["witnesses_per_mechanism"] = witnesses
    chk.extra["excluded_by_precondition"] = (f"{excluded} weight states with zero batch-norm running variance (float32, or more than two batch-norm layers): "
                                             "conditioning 316^layers makes the comparison a rounding test")
    chk.finish("flow cases: every (ftype in realnvp/nsf/maf, linear transform None/permutation/lu/svd, d in 2/3/5 [thorough also 4/8], dtype) cell in seeded order, "
               "remaining options (batch norm between/within, actnorm, masks 1-d/2-d, base distribution default/mvn var!=1/uniform/lars, net resnet/mlp, volume preserving, "
               "activation, pre-transform batch_norm/logit, spline bins/tails/unconditional transform, MAF masks/permutations/residual blocks, blocks/neurons/layers, deprecated "
               "kwargs form) drawn at random; each taken through fresh, perturbed (+N(0,0.3^2)), trained 5 epochs, reset weights, reset permutations, full reset; 1500 generated "
               "points per state compared between generation, evaluation, FlowModel wrappers (with and without alt_dist) and an independent composition of the transforms with "
               "closed-form base density; 2-d float64 cases integrated on 600^2 (refined 1800^2) quantile-spaced cells over the central box against the empirical mass of an "
               "independent sample. FlowProposal cases: 6 deterministic reparameterisations x 3 latent priors x 3 flow types x 2 dtypes (every fifth AugmentedFlowProposal), "
               "2000 latent points backward then forward. Importance cases: tiny real INS run (3 iterations), draw / recompute / update_log_q / stored / independent tables. "
               "A case is non-trivial when its deciding comparison ran on finite values; distinct by configuration cell.",
               require_observed=["cmp_generated_vs_evaluated", "cmp_round_trip", "cmp_direct", "cmp_alt_dist", "cmp_normalisation_2d", "cmp_flowproposal_density",
                                 "cmp_augmented_density", "cmp_ins_table", "cmp_ins_update", "cmp_ins_direct"])


def compact(cfg):
    if "kwargs" in cfg:
        kw = {k: v for k, v in cfg["kwargs"].items() if v not in (False, None)}
        return f"[{cfg['ftype']} d={cfg['d']} {cfg['dtype']} blocks={cfg['n_blocks']} dist={cfg.get('distribution')} {kw}]"
    return "[" + " ".join(f"{k}={v}" for k, v in cfg.items()) + "]"


if __name__ == "__main__":
    main()
