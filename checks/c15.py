"""C15 — sampling stops exactly per the stopping rule; finished runs are idempotent (trace checker + second run / resume-after-finish)."""
from vlib.common import Check, assert_repo
from vlib.runhelp import run_matrix

RULE = ("real runs of both samplers (tolerances 1e-3..0.5, caps hit and not hit, min_iteration, every INS criterion alone and in any/all pairs); a wrapper records "
        "the compared condition/criterion vector at every iteration: the standard condition is recomputed from a pre-state snapshot, the INS guard is evaluated at "
        "the first statement of each loop body and at exit, ESS / log_dZ / fractional error / Z_err are recomputed from the stored samples in longdouble, history rows "
        "are compared with the trace; finished runs are run again and resumed from the final checkpoint in a fresh sampler and must give identical digests with zero "
        "likelihood calls at the user boundary. Non-trivial = run whose trace was checked; distinct by (cell, seed, resumed).")


def idem(c):
    c = dict(c)
    c["idempotence"] = True
    if c.get("cell") in ("default-G2u", "nonuniform-analytic", "tolerance-loose", "shrinkage-t", "nlive-10", "reparam-logit", "default-G4u", "tolerance-tight"):
        c["cap_at_convergence"] = True
    return c


def main():
    chk = Check("C15", "exploration")
    assert_repo()
    run_matrix(chk, props=("C15",), deciding=["C15.condition_trace", "C15.trace_checked", "C15.second_run_checked", "C15.resume_after_finish_checked", "C15.cap_at_convergence_checked"], rule=RULE,
               finish=False, resume_fraction=10**9, extra_case=idem)
    if chk.replay_case:
        return
    run_matrix(chk, props=("C15",), sampler="ins", timeout=240, extra_case=idem,
               deciding=["C15.guard_checks", "C15.criteria_checks", "C15.exit_checks", "C15.history_rows_checked", "C15.second_run_checked", "C15.resume_after_finish_checked"],
               rule=RULE)


if __name__ == "__main__":
    main()
