"""C18 — live-point conversions preserve names, order, values and defaults (reference registry model + round trips)."""
import numpy as np

from vlib.common import Check, assert_repo, rng_for

CORE = [("logP", "f8", np.nan), ("logL", "f8", np.nan), ("it", "i4", 0)]
ALPHABET = "abcxyzαβγ_ABCλ0123456789"
SPECIAL = [np.nan, np.inf, -np.inf, 0.0, -0.0, 5e-324, -2.2e-308, 1e308, -1e308, 1.0, -1.5, 1e-300, 123456789.123]


def gen_names(rng, k, forbidden):
    names = []
    while len(names) < k:
        style = rng.integers(5)
        if style == 0 and names:  # a name that has an existing name as a prefix
            cand = names[int(rng.integers(len(names)))] + ALPHABET[int(rng.integers(len(ALPHABET)))]
        elif style == 1:
            cand = "_" + "".join(ALPHABET[int(i)] for i in rng.integers(0, len(ALPHABET), int(rng.integers(1, 6))))
        elif style == 2:
            cand = ["x", "y", "mass_1", "log_p", "logp", "It", "logl", "LOGL", "ra", "dec"][int(rng.integers(10))] + str(int(rng.integers(0, 3)))
        else:
            cand = "".join(ALPHABET[int(i)] for i in rng.integers(0, len(ALPHABET) - 10, 1)) + "".join(
                ALPHABET[int(i)] for i in rng.integers(0, len(ALPHABET), int(rng.integers(0, 8))))
        if cand.isidentifier() and cand not in names and cand not in forbidden:
            names.append(cand)
    return names


def gen_values(rng, n, d):
    a = rng.normal(0, 10 ** rng.uniform(-3, 6), (n, d))
    if n and rng.random() < 0.6:
        k = int(rng.integers(1, max(2, n * d // 3 + 1)))
        idx = rng.integers(0, n * d, k)
        a.reshape(-1)[idx] = rng.choice(SPECIAL, k)
    return a


def same(a, b):
    a, b = np.asarray(a, dtype=float), np.asarray(b, dtype=float)
    return a.shape == b.shape and a.tobytes() == b.tobytes()


class Registry:
    """Reference model of config.livepoints: ordered extras with add-if-absent and reset."""

    def __init__(self):
        self.extras = []
        self.core = list(CORE)

    def add(self, names, defaults=None):
        if defaults is None:
            defaults = [np.nan] * len(names)
        for n, d in zip(names, defaults):
            if n not in [e[0] for e in self.extras]:
                self.extras.append((n, d))

    def reset(self):
        self.extras = []

    def fields(self, names, non_sampling=True):
        f = [(n, "f8") for n in names]
        if non_sampling:
            f += [(n, t) for n, t, _ in self.core] + [(n, "f8") for n, _ in self.extras]
        return f

    def defaults(self):
        return [(n, d) for n, _, d in self.core] + list(self.extras)


def check_defaults(lp, reg, names, non_sampling, probs, tag):
    exp = np.dtype(reg.fields(names, non_sampling))
    if lp.dtype != exp:
        probs.append((tag + ":dtype", str(lp.dtype.names), str(exp.names)))
        return False
    if non_sampling and lp.size:
        for n, d in reg.defaults():
            if not same(lp[n].astype(float), np.full(lp.shape, d, dtype=float)):
                probs.append((tag + ":default", n, lp[n][:3].tolist(), d))
    return True


def one_case(seed, n, counts):
    import pandas as pd
    from nessai import config
    from nessai import livepoint as lpm
    from nessai.model import Model

    rng = rng_for(seed, "C18", n)
    probs = []
    lpm.reset_extra_live_points_parameters()
    reg = Registry()
    # a fifth of the cases run under non-default global options for the iteration field (documented in nessai.config.livepoints): registering and resetting *extra*
    # fields must leave them alone
    custom_core = n % 5 == 3
    if custom_core:
        it_default, it_dtype = int(rng.choice([-1, 7])), str(rng.choice(["i4", "i8"]))
        config.livepoints.it_default, config.livepoints.it_dtype = it_default, it_dtype
        config.livepoints.reset_properties()
        reg.core = [("logP", "f8", np.nan), ("logL", "f8", np.nan), ("it", it_dtype, it_default)]
        counts["cases_with_non_default_iteration_field_options"] = counts.get("cases_with_non_default_iteration_field_options", 0) + 1
    try:
        return _one_case_body(seed, n, counts, rng, probs, reg, lpm, config, Model, pd)
    finally:
        if custom_core:
            config.livepoints.it_default, config.livepoints.it_dtype = 0, "i4"
            config.livepoints.reset_properties()


def _one_case_body(seed, n, counts, rng, probs, reg, lpm, config, Model, pd):
    d = int(rng.integers(1, 21))
    npts = int(rng.choice([0, 1, 1, 2, 3, 17, int(rng.integers(4, 1000))]))
    # registry history
    hist = []
    extras_pool = gen_names(rng, 5, {"logP", "logL", "it"})
    names = gen_names(rng, d, set(extras_pool) | {"logP", "logL", "it"})
    model = None
    if rng.random() < 0.5 and d >= 2:  # nessai refuses one-dimensional models
        class M(Model):
            def __init__(s):
                s.names = list(names)
                s.bounds = {k: [-1e9, 1e9] for k in names}

            def log_prior(s, x):
                return np.zeros(np.size(x))

            def log_likelihood(s, x):
                return np.zeros(np.size(x))

        model = M()
        if rng.random() < 0.5:
            _ = model._view_dtype  # cache the view dtype *before* the registry changes
    for _ in range(int(rng.integers(0, 7))):
        op = rng.integers(4)
        if op == 0:
            lpm.reset_extra_live_points_parameters()
            reg.reset()
            hist.append("reset")
        else:
            k = int(rng.integers(1, 4))
            ps = [extras_pool[int(i)] for i in rng.integers(0, len(extras_pool), k)]
            if rng.random() < 0.5:
                dv = [float(rng.choice([0.0, -1.5, np.inf, 7.0, np.nan])) for _ in ps]
                lpm.add_extra_parameters_to_live_points(ps, dv)
                # duplicates inside one call: first occurrence wins
                reg.add(ps, dv)
            else:
                lpm.add_extra_parameters_to_live_points(ps)
                reg.add(ps)
            hist.append(("add", ps))
        counts["registry_ops"] += 1
        # constructions interleaved with the registry history: what is built must reflect the registry as it is *now* (same names, same dtype as a moment ago,
        # possibly other defaults after reset + re-registration)
        k_pts = int(rng.choice([1, 2, 5]))
        for ctor, arr in (("empty_structured_array", lpm.empty_structured_array(k_pts, names)),
                          ("numpy_array_to_live_points", lpm.numpy_array_to_live_points(np.zeros((k_pts, d)), names)),
                          ("parameters_to_live_point", lpm.parameters_to_live_point([0.0] * d, names))):
            counts["interleaved_constructions"] = counts.get("interleaved_constructions", 0) + 1
            check_defaults(arr, reg, names, True, probs, f"after-registry-op:{ctor}")
        got = lpm.get_dtype(names)
        if got != np.dtype(reg.fields(names)):
            probs.append(("registry:get_dtype", str(got.names), hist))
        if list(config.livepoints.non_sampling_parameters) != [f[0] for f in reg.defaults()]:
            probs.append(("registry:non_sampling_parameters", list(config.livepoints.non_sampling_parameters)))
    vals = gen_values(rng, npts, d)
    for ns in (True, False):
        # --- empty_structured_array
        e = lpm.empty_structured_array(npts, names, non_sampling_parameters=ns)
        counts["constructions"] += 1
        if check_defaults(e, reg, names, ns, probs, "empty_structured_array") and npts:
            if not all(np.all(np.isnan(e[k])) for k in names):
                probs.append(("empty_structured_array:parameters not NaN",))
        if ns:
            e2 = lpm.empty_structured_array(npts, dtype=lpm.get_dtype(names))
            if e2.dtype != e.dtype or e2.tobytes() != e.tobytes():
                probs.append(("empty_structured_array(dtype=) differs",))
        # --- numpy array
        lp = lpm.numpy_array_to_live_points(vals, names, non_sampling_parameters=ns)
        counts["constructions"] += 1
        if check_defaults(lp, reg, names, ns, probs, "numpy_array_to_live_points"):
            if lp.shape != (npts,):
                probs.append(("numpy_array_to_live_points:shape", lp.shape, npts))
            else:
                back = lpm.live_points_to_array(lp, names)
                if npts and not same(back, vals):
                    probs.append(("numpy_array round trip", npts, d))
                dct = lpm.live_points_to_dict(lp, names)
                if list(dct.keys()) != names or any(not same(dct[k], vals[:, i]) for i, k in enumerate(names)):
                    probs.append(("live_points_to_dict", list(dct.keys())[:3]))
                # requests in an order different from the dtype's (also when every field of the array is requested)
                if npts and d > 1:
                    perm = [int(i) for i in rng.permutation(d)]
                    pn = [names[i] for i in perm]
                    back_p = lpm.live_points_to_array(lp, pn)
                    counts["permuted_requests"] = counts.get("permuted_requests", 0) + 1
                    if back_p.shape != (npts, d) or not same(back_p, vals[:, perm]):
                        probs.append(("live_points_to_array: columns not in the requested order", dict(all_fields_requested=not ns)))
                    dct_p = lpm.live_points_to_dict(lp, pn)
                    if list(dct_p.keys()) != pn or any(not same(dct_p[k], vals[:, names.index(k)]) for k in pn):
                        probs.append(("live_points_to_dict: keys/values not in the requested order", ""))
                    if ns:
                        allf = list(lp.dtype.names)
                        pf = [allf[int(i)] for i in rng.permutation(len(allf))]
                        lp2 = lp.copy()
                        lp2["logP"], lp2["logL"] = 1.5, -2.5
                        arr_all = lpm.live_points_to_array(lp2, pf)
                        exp_all = np.stack([lp2[k].astype(float) for k in pf], axis=1)
                        if arr_all.shape != exp_all.shape or not same(arr_all, exp_all):
                            probs.append(("live_points_to_array: every field requested in another order comes back in dtype order", ""))
                if ns:
                    full = lpm.live_points_to_dict(lp)
                    if list(full.keys()) != [f[0] for f in reg.fields(names)]:
                        probs.append(("live_points_to_dict(all) keys", list(full.keys())))
        if npts:
            one = lpm.numpy_array_to_live_points(vals[0], names, non_sampling_parameters=ns)  # 1-d input = one point
            if one.shape != (1,) or not same(lpm.live_points_to_array(one, names), vals[:1]):
                probs.append(("numpy_array 1-d input", one.shape))
            # --- single point from parameters
            for kind in ("list", "tuple", "array"):
                p = {"list": list(map(float, vals[0])), "tuple": tuple(map(float, vals[0])), "array": vals[0]}[kind]
                pl = lpm.parameters_to_live_point(p, names, non_sampling_parameters=ns)
                counts["constructions"] += 1
                if check_defaults(pl, reg, names, ns, probs, "parameters_to_live_point") and (
                        pl.shape != (1,) or not same(lpm.live_points_to_array(pl, names), vals[:1])):
                    probs.append(("parameters_to_live_point round trip", kind))
        pe = lpm.parameters_to_live_point([], names, non_sampling_parameters=ns)
        if pe.shape != (0,) or pe.dtype != np.dtype(reg.fields(names, ns)):
            probs.append(("parameters_to_live_point empty", pe.shape))
        # --- dict
        variants = []
        if npts >= 1:
            variants.append(("scalars", {k: float(vals[0, i]) for i, k in enumerate(names)}, vals[:1]))
            variants.append(("len1_arrays", {k: vals[:1, i].copy() for i, k in enumerate(names)}, vals[:1]))
            variants.append(("len1_lists", {k: [float(vals[0, i])] for i, k in enumerate(names)}, vals[:1]))
        variants.append(("arrays", {k: vals[:, i].copy() for i, k in enumerate(names)}, vals))
        if npts > 1:
            variants.append(("lists", {k: vals[:, i].tolist() for i, k in enumerate(names)}, vals))
        for tag, dct, expv in variants:
            counts["constructions"] += 1
            try:
                dl = lpm.dict_to_live_points(dct, non_sampling_parameters=ns)
            except Exception as ex:
                probs.append((f"dict_to_live_points[{tag}]:{type(ex).__name__}", str(ex)[:80]))
                continue
            if check_defaults(dl, reg, names, ns, probs, f"dict_to_live_points[{tag}]"):
                if dl.shape != (len(expv),) or (len(expv) and not same(lpm.live_points_to_array(dl, names), expv)):
                    probs.append((f"dict_to_live_points[{tag}] round trip", dl.shape))
        # --- data frame
        df = pd.DataFrame({k: vals[:, i] for i, k in enumerate(names)})
        counts["constructions"] += 1
        try:
            fl = lpm.dataframe_to_live_points(df, non_sampling_parameters=ns)
            if check_defaults(fl, reg, names, ns, probs, "dataframe_to_live_points"):
                if fl.shape != (npts,) or (npts and not same(lpm.live_points_to_array(fl, names), vals)):
                    probs.append(("dataframe round trip", fl.shape))
        except Exception as ex:
            probs.append((f"dataframe_to_live_points:{type(ex).__name__}", str(ex)[:80]))
    # --- unstructured view: zero-copy window onto exactly the parameters
    lp = lpm.numpy_array_to_live_points(vals, names)
    if npts:
        lp["logL"] = np.arange(npts) + 0.5
        views = [("function", lpm.unstructured_view(lp, names=names))]
        if model is not None:
            views.append(("model", model.unstructured_view(lp)))
        for tag, v in views:
            counts["views"] += 1
            if v.shape != (npts, d):
                probs.append((f"view[{tag}]:shape", v.shape))
                continue
            if not np.shares_memory(v, lp):
                probs.append((f"view[{tag}]:copy",))
            if not same(v, vals):
                probs.append((f"view[{tag}]:values",))
            if not same(v, lpm.live_points_to_array(lp, names)):
                probs.append((f"view[{tag}]:differs from live_points_to_array",))
            v[0, d - 1] = 42.0
            if lp[names[-1]][0] != 42.0 or lp["logL"][0] != 0.5:
                probs.append((f"view[{tag}]:write-through",))
            lp[names[-1]][0] = vals[0, d - 1]
        if d > 1:
            sub = names[: int(rng.integers(1, d))]
            v = lpm.unstructured_view(lp, names=sub)
            counts["views"] += 1
            if v.shape != (npts, len(sub)) or not same(v, vals[:, : len(sub)]) or not np.shares_memory(v, lp):
                probs.append(("view[prefix subset]", len(sub)))
    lpm.reset_extra_live_points_parameters()
    reg.reset()
    if list(config.livepoints.non_sampling_parameters) != ["logP", "logL", "it"]:
        probs.append(("reset leaves extras",))
    check_defaults(lpm.empty_structured_array(2, names), reg, names, True, probs, "after-final-reset:empty_structured_array")
    return dict(n=n, d=d, npts=npts, hist_len=len(hist), names=names[:4], problems=probs)


def worker(case):
    assert_repo()
    counts = dict(registry_ops=0, constructions=0, views=0)
    out = []
    for n in case["ids"]:
        try:
            out.append(one_case(case["seed"], n, counts))
        except Exception as e:
            import traceback

            out.append(dict(n=n, d=0, npts=0, hist_len=0, names=[], problems=[("exception:" + type(e).__name__, traceback.format_exc()[-700:])]))
    return dict(results=out, counts=counts)


def classify(p):
    key = str(p[0])
    if key.startswith("dict_to_live_points[") and key.endswith(":ValueError") and ("len1" in key or "arrays" in key):
        # one point supplied as length-1 sequences: one mechanism whatever the container type
        return "C18:dict_to_live_points:single-point-as-length-1-sequences:ValueError"
    return "C18:" + key


def main():
    chk = Check("C18", "exploration")
    chk.max_inconclusive = 0    # deterministic component-level cases: an undecided chunk makes the whole check inconclusive
    assert_repo()
    from vlib.farm import run_cases

    if chk.replay_case:
        counts = dict(registry_ops=0, constructions=0, views=0)
        print(one_case(chk.replay_case["seed"], chk.replay_case["case"]["n"], counts))
        return
    total = 2000 if chk.quick else 50000
    chunk = 50 if chk.quick else 400
    ids = list(range(total))
    cases = [dict(ids=ids[i:i + chunk], seed=chk.seed) for i in range(0, total, chunk)]
    res = run_cases(cases, "checks.c18:worker", chk.scratch, nproc=chk.args.nproc, timeout=900)
    for c, r in zip(cases, res):
        if "results" not in r:
            chk.note_inconclusive(str(r)[:300])
            chk.evaluations += len(c["ids"])
            continue
        chk.merge_counters(r["counts"])
        for x in r["results"]:
            chk.case_done(ident=(x["d"], x["npts"], x["hist_len"], tuple(x["names"])), nontrivial=True,
                          sample={k: x[k] for k in ("n", "d", "npts", "hist_len", "names")} if x["n"] % 499 == 0 else None)
            for p in x["problems"]:
                chk.violation(classify(p), f"case #{x['n']} (d={x['d']}, points={x['npts']}, registry history {x['hist_len']}): {p}", dict(n=x["n"]))
    chk.finish("seeded cases: 1-20 generated identifier names (unicode, leading underscore, prefixes of each other), 0/1/n points, values with NaN, +-inf, "
               "-0.0, subnormals, +-1e308; a registry history of up to 6 add/reset operations stepped beside a reference registry model; every constructor "
               "(empty, numpy 1-d/2-d, parameters list/tuple/array, dict of scalars/len-1 arrays/len-1 lists/arrays/lists, data frame) with and without "
               "non-sampling fields followed by its inverse, compared bit for bit; unstructured views checked for sharing, shape, write-through. "
               "Every case is non-trivial; distinct by (d, points, history length, first names).",
               require_observed=["constructions", "views", "registry_ops"])


if __name__ == "__main__":
    main()
