"""C05 — returned results are mutually consistent and faithful to the model (post-run oracle on both samplers)."""
from vlib.common import Check, assert_repo
from vlib.runhelp import run_matrix

RULE = ("real runs of both samplers over the standard and INS matrices (uninterrupted, stopped-and-resumed, iteration-capped, prior-sampling); after FlowSampler.run "
        "the evidence, its error and the posterior weights are recomputed from the returned samples alone (mpmath quadrature with the actual live-count schedule; "
        "longdouble importance estimator), sample counts, ordering, stored logL/logP vs the model, birth likelihoods and the result dictionary are compared. "
        "Non-trivial = completed run whose estimator was recomputed; distinct by (cell, seed, resumed).")


def main():
    chk = Check("C05", "exploration")
    assert_repo()
    run_matrix(chk, props=("C05",), deciding=["C05.result_checked"], rule=RULE, finish=False, resume_fraction=2)
    if chk.replay_case:
        return
    run_matrix(chk, props=("C05",), sampler="ins", timeout=240, deciding=["C05.result_checked", "C05.estimator_recomputed"], rule=RULE)


if __name__ == "__main__":
    main()
