"""C16 — posterior resampling follows the posterior weights (structural oracle + exact binomial frequency bounds)."""
import math
import os

import numpy as np

from vlib.common import Check, assert_repo, rng_for

ALPHA = 1e-9
CLASSES = ["equal", "one_dominant", "geometric", "with_ninf", "shifted_pos", "shifted_neg", "extreme_range", "random"]


def gen_weights(rng, cls, n):
    if cls == "equal":
        w = np.zeros(n)
    elif cls == "one_dominant":
        w = np.full(n, -8.0) + rng.normal(0, 0.1, n)
        w[int(rng.integers(n))] = 0.0
    elif cls == "geometric":
        w = -np.arange(n) * rng.uniform(0.05, 1.5)
        rng.shuffle(w)
    elif cls == "with_ninf":
        w = rng.normal(0, 1.5, n)
        if n > 1:
            k = int(rng.integers(1, n))
            w[rng.choice(n, k, replace=False)] = -np.inf
    elif cls == "shifted_pos":
        w = rng.normal(0, 1.0, n) + 1e5
    elif cls == "shifted_neg":
        w = rng.normal(0, 1.0, n) - 1e5
    elif cls == "extreme_range":
        w = rng.uniform(-690, 0, n)  # dynamic range 1e-300
        w[int(rng.integers(n))] = 0.0
    else:
        w = rng.normal(0, 3.0, n)
    return w


def nested(n):
    from nessai.livepoint import numpy_array_to_live_points

    a = np.arange(n, dtype=float)[:, None] * np.ones((1, 2))
    a[:, 1] = -a[:, 1]
    x = numpy_array_to_live_points(a, ["u", "v"])
    x["logL"] = np.arange(n)
    return x


def structural(seed, n_case, counts):
    from nessai.posterior import draw_posterior_samples
    from nessai.utils.stats import effective_sample_size
    from nessai.evidence import _INSIntegralState

    rng = rng_for(seed, "C16s", n_case)
    cls = CLASSES[n_case % len(CLASSES)]
    n = int(rng.choice([1, 2, 3, 10, 50, 1000, 1000, 100000 if n_case % 97 == 0 else 300]))
    w = gen_weights(rng, cls, n)
    x = nested(n)
    probs = []
    np.random.seed(int(rng.integers(2**31)))
    finite = np.isfinite(w)
    # ---- ESS
    ess = effective_sample_size(w.copy())
    counts["ess"] += 1
    if not (1 - 1e-9 <= ess <= n * (1 + 1e-9)):
        probs.append(("ess range", float(ess), n))
    for c in (1.0, -1.0, 1e3, -1e3, 1e5, -1e5):
        if np.max(np.abs(w[finite])) + abs(c) > 2.1e5:
            continue
        e2 = effective_sample_size(w + c)
        spread = float(np.max(w[finite]) - np.min(w[finite])) if finite.any() else 0.0
        # w+c rounds each weight by up to eps*|c| (the input itself changes), hence the eps|c| term
        if not abs(e2 - ess) <= 1e-9 * ess + 64 * np.finfo(float).eps * (abs(c) + np.max(np.abs(w[finite]))) * ess * max(1.0, 1.0):
            probs.append(("ess shift", c, float(ess), float(e2)))
    # integral-state ESS (same definition) on an INS state
    st = _INSIntegralState()
    ns = np.zeros(n, dtype=[("logL", "f8"), ("logW", "f8")])
    ns["logL"] = w
    st.update_evidence(ns)
    e3 = st.effective_n_posterior_samples
    if not abs(e3 - ess) <= 1e-9 * ess:
        probs.append(("state ess", float(e3), float(ess)))
    # ---- rejection sampling
    for _ in range(3):
        s, idx = draw_posterior_samples(x, log_w=w.copy(), method="rejection_sampling", return_indices=True)
        counts["rejection_calls"] += 1
        idx = np.asarray(idx)
        if not (s.tobytes() == x[idx].tobytes()):
            probs.append(("rejection: samples != nested[indices]",))
        if len(idx) and (idx.min() < 0 or idx.max() >= n or np.any(np.diff(idx) <= 0)):
            probs.append(("rejection: indices not strictly increasing in range",))
        amax = np.flatnonzero(w == np.max(w))
        if not np.all(np.isin(amax, idx)):
            probs.append(("rejection: a maximum-weight sample was dropped", amax[:3].tolist()))
        if np.any(~finite[idx]):
            probs.append(("rejection: zero-weight sample kept",))
        s2 = draw_posterior_samples(x, log_w=w.copy(), method="rejection_sampling")
        if not np.all(np.isin(s2["u"], x["u"])):
            probs.append(("rejection: sample not an element of the input",))
    # ---- multinomial
    for method in ("multinomial_resampling", "importance_sampling"):
        for req in (None, 0, 1, n, 10 * n if n <= 1000 else 7):
            s, idx = draw_posterior_samples(x, log_w=w.copy(), method=method, n=req, return_indices=True)
            counts["multinomial_calls"] += 1
            exp_n = int(ess) if req is None else req
            if len(s) != exp_n or len(idx) != exp_n:
                probs.append(("multinomial: size", len(s), exp_n, req))
            if not (s.tobytes() == x[idx].tobytes()):
                probs.append(("multinomial: samples != nested[indices]",))
            if len(idx) and (np.min(idx) < 0 or np.max(idx) >= n):
                probs.append(("multinomial: index out of range",))
            if len(idx) and np.any(~finite[idx]):
                probs.append(("multinomial: zero-weight sample drawn",))
    # weights from nlive (no log_w): elements of the input
    if n >= 10:
        nl = int(rng.choice([1, 5, 10]))
        xs = x.copy()
        xs["logL"] = np.sort(rng.normal(0, 2, n))
        s, idx = draw_posterior_samples(xs, nlive=nl, return_indices=True)
        counts["rejection_calls"] += 1
        if not (s.tobytes() == xs[idx].tobytes()):
            probs.append(("rejection(nlive): samples != nested[indices]",))
    return dict(n=n_case, cls=cls, size=n, problems=probs)


def binom_bounds(R, p, alpha):
    from scipy.stats import binom

    if p <= 0:
        return 0, 0
    if p >= 1:
        return R, R
    return int(binom.ppf(alpha / 2, R, p)) - 1, int(binom.isf(alpha / 2, R, p)) + 1


def frequency(seed, n_case, R, counts):
    """R repetitions; per-entry counts against exact two-sided binomial bounds at ALPHA split over all decisions."""
    from nessai.posterior import draw_posterior_samples

    rng = rng_for(seed, "C16f", n_case)
    cls = CLASSES[n_case % len(CLASSES)]
    n = int([1, 2, 3, 10, 50][(n_case // len(CLASSES)) % 5])
    w = gen_weights(rng, cls, n)
    x = nested(n)
    np.random.seed(int(rng.integers(2**31)))
    n_decisions = 2 * n * 400  # Bonferroni: entries x methods x (an upper bound on the number of frequency cases per run)
    alpha = ALPHA / n_decisions
    probs = []
    wmax = np.max(w)
    p_rej = np.where(np.isfinite(w), np.exp(w - wmax), 0.0)
    cnt = np.zeros(n, dtype=int)
    for _ in range(R):
        _, idx = draw_posterior_samples(x, log_w=w.copy(), method="rejection_sampling", return_indices=True)
        cnt[idx] += 1
    counts["rejection_calls"] += R
    margin = 1.0
    for i in range(n):
        lo, hi = binom_bounds(R, float(p_rej[i]), alpha)
        if not lo <= cnt[i] <= hi:
            probs.append(("rejection frequency", i, int(cnt[i]), lo, hi, float(p_rej[i])))
        if hi > lo:
            margin = min(margin, min(cnt[i] - lo, hi - cnt[i]) / max(1.0, (hi - lo) / 2))
    # multinomial
    m = max(1, min(20, 2 * n))
    from scipy.special import logsumexp

    p_mul = np.where(np.isfinite(w), np.exp(w - logsumexp(w)), 0.0)
    cnt = np.zeros(n, dtype=int)
    Rm = max(1, R // 4)
    for _ in range(Rm):
        _, idx = draw_posterior_samples(x, log_w=w.copy(), method="multinomial_resampling", n=m, return_indices=True)
        np.add.at(cnt, idx, 1)
    counts["multinomial_calls"] += Rm
    for i in range(n):
        lo, hi = binom_bounds(Rm * m, float(p_mul[i]), alpha)
        if not lo <= cnt[i] <= hi:
            probs.append(("multinomial frequency", i, int(cnt[i]), lo, hi, float(p_mul[i])))
        if hi > lo:
            margin = min(margin, min(cnt[i] - lo, hi - cnt[i]) / max(1.0, (hi - lo) / 2))
    if cnt.sum() != Rm * m:
        probs.append(("multinomial total", int(cnt.sum()), Rm * m))
    return dict(n=n_case, cls=cls, size=n, problems=probs, margin=margin, weights=[float(v) for v in w[:5]])


def long_vector(seed, n_case, counts):
    """Length 1e5: total kept by rejection sampling against a Bernstein bound."""
    from nessai.posterior import draw_posterior_samples

    rng = rng_for(seed, "C16l", n_case)
    n = 100000
    w = gen_weights(rng, ["random", "geometric", "with_ninf", "one_dominant"][n_case % 4], n)
    if n_case % 4 == 1:
        w = w / 1000.0
    x = nested(n)
    np.random.seed(int(rng.integers(2**31)))
    p = np.where(np.isfinite(w), np.exp(w - np.max(w)), 0.0)
    mu, var = p.sum(), float(np.sum(p * (1 - p)))
    t = math.sqrt(2 * var * math.log(2 / (ALPHA / 100))) + (2 / 3) * math.log(2 / (ALPHA / 100))  # Bernstein
    s, idx = draw_posterior_samples(x, log_w=w.copy(), method="rejection_sampling", return_indices=True)
    counts["rejection_calls"] += 1
    probs = []
    if abs(len(idx) - mu) > t + 1:
        probs.append(("rejection total kept", len(idx), float(mu), float(t)))
    if not (s.tobytes() == x[idx].tobytes()):
        probs.append(("rejection: samples != nested[indices]",))
    return dict(n=n_case, cls="long", size=n, problems=probs, kept=len(idx), expected=float(mu), bound=float(t))


def sampler_level(case):
    """The samplers' own wrappers around draw_posterior_samples: requested size, membership, default size, for every documented method name."""
    assert_repo()
    import shutil
    from vlib.runs import std_kwargs, ins_kwargs, quiet_logging, reset_globals
    from vlib import zoo
    from nessai.flowsampler import FlowSampler
    from nessai.utils.stats import effective_sample_size

    quiet_logging()
    reset_globals()
    probs, counts = [], dict(wrapper_calls=0)
    out = case["outdir"]
    shutil.rmtree(out, ignore_errors=True)
    names = None

    def rows(a):
        return {tuple(float(r[n]) for n in names) + (float(r["logL"]),) for r in a}

    try:
        if case["sampler"] == "ins":
            model = zoo.make("G2u")
            names = list(model.names)
            fs = FlowSampler(model, output=out, resume=False, importance_nested_sampler=True, signal_handling=False, **ins_kwargs(dict(seed=case["seed"], max_iteration=6)))
            fs.run(plot=False, save=False)
            ns = fs.ns
            for final in (True, False):
                pool = ns.final_samples if (final and ns.final_samples_unit is not None) else ns.samples
                lw = np.asarray((ns.final_state if (final and ns.final_samples_unit is not None) else ns.state).log_posterior_weights, dtype=float)
                ess = effective_sample_size(lw)
                members = rows(pool)
                for method in ("multinomial_resampling", "importance_sampling"):
                    for n in (1, 37, int(2 * ess) + 3, None):
                        counts["wrapper_calls"] += 1
                        post = ns.draw_posterior_samples(sampling_method=method, n=n, use_final_samples=final)
                        want = int(ess) if n is None else n
                        if len(post) != want:
                            probs.append((f"ins-wrapper:{method}:size", dict(requested=n, returned=len(post), int_ess=int(ess), use_final_samples=final)))
                        if not rows(post) <= members:
                            probs.append((f"ins-wrapper:{method}:not-elements-of-the-samples", dict(requested=n)))
                counts["wrapper_calls"] += 1
                post = ns.draw_posterior_samples(sampling_method="rejection_sampling", use_final_samples=final)
                if not rows(post) <= members:
                    probs.append(("ins-wrapper:rejection_sampling:not-elements-of-the-samples", ""))
                best = pool[int(np.argmax(lw))]
                if (tuple(float(best[n]) for n in names) + (float(best["logL"]),)) not in rows(post):
                    probs.append(("ins-wrapper:rejection_sampling:maximum-weight-sample-missing", ""))
        else:
            model = zoo.make("G2u")
            names = list(model.names)
            method, n = case["method"], case["n"]
            fs = FlowSampler(model, output=out, resume=False, signal_handling=False, **std_kwargs(dict(seed=case["seed"], nlive=50)))
            fs.run(plot=False, save=False, posterior_sampling_method=method)   # the standard sampler's run() has no size argument: int(ESS) draws
            counts["wrapper_calls"] += 1
            nested = np.array(fs.ns.nested_samples)
            lw = np.asarray(fs.ns.state.log_posterior_weights, dtype=float)
            ess = effective_sample_size(lw)
            post = fs.posterior_samples
            if not rows(post) <= rows(nested):
                probs.append((f"std-wrapper:{method}:not-elements-of-the-nested-samples", ""))
            if method != "rejection_sampling":
                want = int(ess) if n is None else n
                if len(post) != want:
                    probs.append((f"std-wrapper:{method}:size", dict(requested=n, returned=len(post), int_ess=int(ess))))
    except Exception as e:
        import traceback

        probs.append(("sampler-level:exception:" + type(e).__name__, traceback.format_exc()[-500:]))
    finally:
        shutil.rmtree(out, ignore_errors=True)
    return dict(problems=probs, counts=counts)


def worker(case):
    assert_repo()
    counts = dict(ess=0, rejection_calls=0, multinomial_calls=0)
    out = []
    for kind, n in case["items"]:
        try:
            if kind == "s":
                r = structural(case["seed"], n, counts)
            elif kind == "f":
                r = frequency(case["seed"], n, case["R"], counts)
            else:
                r = long_vector(case["seed"], n, counts)
        except Exception as e:
            import traceback

            r = dict(n=n, cls="?", size=0, problems=[("exception:" + type(e).__name__, traceback.format_exc()[-600:])])
        r["kind"] = kind
        out.append(r)
    return dict(results=out, counts=counts)


def main():
    chk = Check("C16", "exploration")
    assert_repo()
    from vlib.farm import run_cases

    R = 4000 if chk.quick else 40000
    if chk.replay_case:
        c = chk.replay_case["case"]
        if c.get("kind") == "w":
            print(sampler_level(dict(c["case"], outdir=os.path.join(chk.scratch, "replay"))))
            return
        print(worker(dict(items=[(c["kind"], c["n"])], seed=chk.replay_case["seed"], R=R)))
        return
    items = [("s", i) for i in range(1500 if chk.quick else 12000)] + [("f", i) for i in range(40 if chk.quick else 200)] + \
            [("l", i) for i in range(4 if chk.quick else 16)]
    # interleave so that chunks have similar cost
    chunks = [[] for _ in range(64)]
    for k, it in enumerate(items):
        chunks[k % 64].append(it)
    cases = [dict(items=c, seed=chk.seed, R=R) for c in chunks if c]
    res = run_cases(cases, "checks.c16:worker", chk.scratch, nproc=chk.args.nproc, timeout=1800)
    worst = 1.0
    for c, r in zip(cases, res):
        if "results" not in r:
            chk.note_inconclusive(str(r)[:300], fatal=True)
            chk.evaluations += len(c["items"])
            continue
        chk.merge_counters(r["counts"])
        for x in r["results"]:
            chk.count({"s": "structural_cases", "f": "frequency_cases", "l": "long_vector_cases"}[x["kind"]])
            if "margin" in x:
                worst = min(worst, x["margin"])
            chk.case_done(ident=(x["kind"], x["cls"], x["size"], x["n"]), nontrivial=x["size"] >= 2 or x["kind"] != "s",
                          sample={k: v for k, v in x.items() if k != "problems"} if (x["kind"] != "s" and x["n"] < 2) or x["n"] == 7 else None)
            for p in x["problems"]:
                chk.violation("C16:" + str(p[0]), f"{x['kind']}-case #{x['n']} class={x['cls']} size={x['size']}: {p}", dict(kind=x["kind"], n=x["n"]))
    # ---- the samplers' own wrappers (every documented method name, explicit and default sizes)
    import os

    scases = [dict(sampler="ins", seed=int(rng_for(chk.seed, "C16", "ins", k).integers(1, 2**31 - 1)), outdir=os.path.join(chk.scratch, f"ins-{k}")) for k in range(1 if chk.quick else 6)]
    k = 0
    for method in ("multinomial_resampling", "importance_sampling", "rejection_sampling"):
        for n in ((None,) if chk.quick else (None, None)):
            scases.append(dict(sampler="std", method=method, n=n, seed=int(rng_for(chk.seed, "C16", "std", k).integers(1, 2**31 - 1)), outdir=os.path.join(chk.scratch, f"std-{k}")))
            k += 1
    for c, r in zip(scases, run_cases(scases, "checks.c16:sampler_level", chk.scratch, nproc=chk.args.nproc, timeout=400)):
        small = {kk: v for kk, v in c.items() if kk != "outdir"}
        if "problems" not in r:
            chk.note_inconclusive(f"sampler-level {small}: {str(r)[:300]}")
            chk.case_done()
            continue
        chk.merge_counters(r["counts"])
        chk.count("sampler_level_cases")
        chk.case_done(ident=("wrapper", str(small)), nontrivial=True, sample=dict(sampler_level=small, wrapper_calls=r["counts"]["wrapper_calls"]) if c["sampler"] == "ins" else None)
        for p in r["problems"]:
            chk.violation("C16:" + str(p[0]), f"sampler-level case {small}: {p}", dict(kind="w", case=small))
    chk.extra["worst_margin"] = f"closest any frequency count came to its exact binomial bound, as a fraction of the half-width: {worst:.3f}"
    chk.extra["repetitions_per_frequency_case"] = R
    chk.assumptions += ["frequency decisions use exact binomial bounds at 1e-9 split over all (entry, method, case) decisions", "numpy's global RNG is seeded per case"]
    chk.finish("weight-vector classes {equal, one dominant, geometric, with -inf, shifted +-1e5, 1e-300 dynamic range, random} x lengths {1,2,3,10,50,300,1000,1e5}: "
               "structural oracle on every call (samples == nested[indices], index range, strictly increasing rejection indices, arg-max present, -inf absent, "
               "multinomial length == requested or int(ESS)), ESS range and shift invariance; frequency cases repeat the draw R times and compare per-entry counts "
               "with exact binomial bounds; long vectors use a Bernstein bound on the total kept; the samplers' own wrappers (INS draw_posterior_samples with both sample sets, "
               "FlowSampler.run(posterior_sampling_method=, n_posterior_samples=)) are called on real runs for every documented method name with explicit and default sizes. Non-trivial = vector of length >= 2 (or any frequency case); "
               "distinct by (kind, class, size, case number).",
               require_observed=["rejection_calls", "multinomial_calls", "ess", "frequency_cases", "wrapper_calls"])


if __name__ == "__main__":
    main()
