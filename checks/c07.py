"""C07 — reparameterisations are exact bijections with consistent Jacobians and priors.

Cells = (reparameterisation name + option values | proposal configuration | elementary map) x (state: before / after the
data-dependent update) x (point class).  For every cell the real objects are driven on a seeded batch:

  round-trip        x -> (x', log_J) -> (x'', log_J_inv): |x''-x| <= 1e-9*range + 64 ulp, every replica block
  jacobian-pairing  log_J + log_J_inv == 0 to 1e-9 (+ float64 rounding x condition of the reported expression)
  true-jacobian     the implemented *inverse* is differentiated numerically at x' (central differences h, h/2 +
                    Richardson); spread over the batch of (reported log_J_inv - log|det|) <= 1e-6; the constant is reported
  prime-prior       x_prime_log_prior(x') - [log pi(x) + log pi_aux - log_J] constant over the batch; same support
                    (prime prior finite <=> implemented inverse lands in the prior box)
  non-sampling      logL/logP/it and registered extra fields byte-identical through rescale / inverse_rescale
  elementary        logit/sigmoid/log/exp/rescale_* and the power-law distance converter in np.longdouble down to
                    1e-15 of the range from the bounds
"""
import logging
import os

import numpy as np

from vlib.common import Check, assert_repo, rng_for

PI = np.pi
EPS = np.finfo(float).eps
PERIODIC_KEY = "C07:periodic-angle:lower-bound-not-0-or-symmetric:round-trip"
FIXED_ANGLE_KEY = "C07:angle-fixed-scale:lower-bound-not-0-and-scaled-range-outside-pm-pi:round-trip"
TOCART_KEY = "C07:to-cartesian:prime-prior:upper-bound-not-positive:log-of-non-positive-constant"
POINT_CLASSES = ["interior", "near_lower", "near_upper", "bounds", "mixed"]
NOT_REACHED = [
    "distance[prior=uniform-comoving-volume] (ComovingDistanceConverter needs astropy, which is not installed)",
]
EXCLUDED = {
    "exact bounds of logit/log post-rescalings, radial lower bound 0, poles of angle pairs, identified end point of periodic angles":
        "measure-zero singular sets listed by the property; approached down to 1e-12 of the range instead",
    "post-update points outside [updated min, updated max] for parameters with boundary inversion":
        "outside the regular domain of the map after update(): such points map to x'<0 and are folded (DESIGN C07, 'Domain after update()')",
    "Angle prime prior (prior='uniform') on bounds whose scaled range is not the full circle":
        "the Cartesian prime prior presumes the full circle; samples outside the box are removed by check_prior_bounds afterwards",
    "float64 finite differences within 20 steps of a kink (|x'|~0 for inversions, branch cuts of arctan2/mod, sign(cos theta_jn)) "
    "or within 1e-4 of the range of a logit/log singularity, 1e-3 rad of a pole":
        "finite differences across a kink / at catastrophic condition say nothing about the map; round trip and pairing still checked there",
    "combinations the proposal rejects at initialisation (delta_phase without reverse_reparameterisations, log/logit with update_bounds)":
        "the property quantifies over accepted combinations",
}


# =================================================================================================================
# bounds and points
# =================================================================================================================
def draw_bounds(rng, fam):
    """One finite interval of the named family."""
    if isinstance(fam, (list, tuple)) and fam[0] == "fix":
        return float(fam[1]), float(fam[2])
    if fam == "box":
        k = rng.integers(8)
        if k == 0:
            return [(0.0, 1.0), (-1.0, 1.0), (-5.0, 5.0), (100.0, 101.0)][int(rng.integers(4))]
        w = 10 ** rng.uniform(-6, 6)
        if k in (1, 2):
            lo = 0.0
        elif k == 3:
            lo = -w / 2
        else:
            lo = float(rng.choice([-1, 1])) * w * 10 ** rng.uniform(-2, 3)
        return float(lo), float(lo + w)
    if fam == "nonpos":  # upper bound <= 0
        hi = 0.0 if rng.random() < 0.3 else -(10 ** rng.uniform(-3, 3))
        return float(hi - 10 ** rng.uniform(-3, 3)), float(hi)
    if fam == "pos":
        lo = 10 ** rng.uniform(-6, 3)
        return float(lo), float(lo * 10 ** rng.uniform(0.1, 4))
    if fam == "unit":
        return float(rng.uniform(0.01, 0.4)), float(rng.uniform(0.6, 0.99))
    if fam == "small":
        lo = rng.uniform(-5, 0)
        return float(lo), float(lo + rng.uniform(0.5, 8))
    if fam == "radial":
        lo = 0.0 if rng.random() < 0.5 else 10 ** rng.uniform(-3, 1)
        return float(lo), float(lo + 10 ** rng.uniform(-3, 3))
    if fam == "dist":
        lo = 10 ** rng.uniform(0, 2.5)
        return float(lo), float(lo * rng.uniform(2, 50))
    if fam.startswith("ang:"):  # fixed scale s
        _, s, kind = fam.split(":")
        s = float(s)
        if kind == "zero_full":
            return 0.0, 2 * PI / s
        if kind == "sym_full":
            return -PI / s, PI / s
        if kind == "zero_part":
            return 0.0, float(rng.uniform(0.05, 0.95)) * 2 * PI / s
        if kind == "sym_part":
            return -float(rng.uniform(0.1, 1.0)) * PI / s, float(rng.uniform(0.1, 1.0)) * PI / s
        if kind == "shift":  # injective (length <= 2pi/s) but neither anchored at 0 nor inside [-pi/s, pi/s]
            length = float(rng.uniform(0.3, 1.0)) * 2 * PI / s
            lo = float(rng.uniform(0.05, 0.9)) * PI / s + max(0.0, PI / s - length) + 0.01 / s
            if rng.random() < 0.5:
                return -(lo + length), -lo
            return lo, lo + length
    if fam.startswith("per:"):
        kind = fam.split(":")[1]
        length = 10 ** rng.uniform(-3, 3)
        if kind == "zero":
            return 0.0, float(length)
        if kind == "sym":
            return -float(length) / 2, float(length) / 2
        while True:
            a = float(rng.uniform(-2, 2))
            if abs(a) >= 0.02 and abs(a + 0.5) >= 0.02:
                return a * float(length), a * float(length) + float(length)
    raise ValueError(fam)


def singular_ends(role, lo, hi):
    """Which exact bounds are in the measure-zero set the property excludes."""
    return {
        "lin": set(), "logit": {"lo", "hi"}, "log": {"lo"}, "radial": {"lo"} if lo == 0 else set(),
        "ang_zero": {"hi"}, "ang_sym": {"lo", "hi"}, "ang_part": set(), "pole": {"lo", "hi"}, "ra_mod": {"hi"},
        "ra_sym": {"lo", "hi"}, "phase": {"lo", "hi"},
    }[role]


def draw_coord(rng, lo, hi, cls, n, sing):
    w = hi - lo
    inner_lo, inner_hi = np.nextafter(lo, hi), np.nextafter(hi, lo)
    if cls == "mixed":
        out = np.empty(n)
        which = rng.integers(0, 4, n)
        for k, c in enumerate(["interior", "near_lower", "near_upper", "bounds"]):
            sel = which == k
            out[sel] = draw_coord(rng, lo, hi, c, int(sel.sum()), sing)
        return out
    if cls == "near_lower":
        v = lo + w * 10 ** rng.uniform(-12, -1, n)
    elif cls == "near_upper":
        v = hi - w * 10 ** rng.uniform(-12, -1, n)
    elif cls == "bounds":
        ends = [e for e, tag in ((lo, "lo"), (hi, "hi")) if tag not in sing]
        if ends:
            v = rng.choice(ends, n)
            some = rng.random(n) < 0.25  # keep a few interior points so that spreads over the batch stay defined
            v[some] = np.clip(lo + w * rng.uniform(0, 1, int(some.sum())), inner_lo, inner_hi)
            return v
        v = lo + w * rng.uniform(0, 1, n)
    else:
        v = lo + w * rng.uniform(0, 1, n)
    return np.clip(v, inner_lo, inner_hi)


# =================================================================================================================
# configurations
# =================================================================================================================
def _cfg(label, family, variant, name, params, opts=None, gw=False, fwd=None, level="object", **extra):
    d = dict(label=label, family=family, variant=variant, name=name, params=params, opts=opts or {}, gw=gw, fwd=fwd or {}, level=level)
    d.update(extra)
    return d


def build_configs():
    C = []
    lin2 = [("a", "box", "lin"), ("b", "box", "lin")]
    lin1 = [("a", "box", "lin")]
    # ---- RescaleToBounds, plain and option grid -------------------------------------------------------------
    for name, gw in [("default", False), ("rescaletobounds", False), ("rescale-to-bounds", False), ("angle-sine", False),
                     ("angle-cosine", False), ("mass", True), ("time", True), ("offset", False)]:
        C.append(_cfg(f"{name}", "rescaletobounds", "plain" if name not in ("time", "offset") else "offset", name, lin2, gw=gw))
    for rb, tag in [([0.0, 1.0], "[0,1]"), ([-3.0, 5.0], "[-3,5]"), ({"a": [0, 1], "b": [-2.0, 7.0]}, "dict")]:
        C.append(_cfg(f"default[rescale_bounds={tag}]", "rescaletobounds", "rescale_bounds", "default", lin2, dict(rescale_bounds=rb)))
    C.append(_cfg("default[offset]", "rescaletobounds", "offset", "default", lin2, dict(offset=True)))
    C.append(_cfg("default[update_bounds=False]", "rescaletobounds", "plain", "default", lin2, dict(update_bounds=False)))
    C.append(_cfg("default[offset,rescale_bounds=[0,1],update_bounds=False]", "rescaletobounds", "offset", "default", lin1,
                  dict(offset=True, rescale_bounds=[0.0, 1.0], update_bounds=False)))
    for extra, tag in [({}, ""), (dict(offset=True), ",offset"), (dict(rescale_bounds=[0.0, 1.0]), ",rescale_bounds=[0,1]"),
                       (dict(update_bounds=False), ",update_bounds=False")]:
        C.append(_cfg(f"default[prior=uniform{tag}]", "rescaletobounds", "prime-prior-uniform", "default", lin2, dict(prior="uniform", **extra)))
    for pre, fam in [("log", "pos"), ("exp", "small"), ("logit", "unit")]:
        C.append(_cfg(f"default[pre={pre}]", "rescaletobounds", f"pre-{pre}", "default", [("a", fam, "lin")], dict(pre_rescaling=pre)))
        C.append(_cfg(f"default[pre={pre},offset,update_bounds=False]", "rescaletobounds", f"pre-{pre}", "default", [("a", fam, "lin")],
                      dict(pre_rescaling=pre, offset=True, update_bounds=False)))
    C.append(_cfg("default[post=logit]", "rescaletobounds", "post-logit", "default", [("a", "box", "logit")], dict(post_rescaling="logit", update_bounds=False)))
    C.append(_cfg("default[post=log]", "rescaletobounds", "post-log", "default", [("a", "box", "log")], dict(post_rescaling="log", update_bounds=False)))
    C.append(_cfg("default[post=exp]", "rescaletobounds", "post-exp", "default", lin1, dict(post_rescaling="exp")))
    # a prime-space prior is asked for together with a non-linear post-rescaling: whatever is offered must still be prior / Jacobian (on the unchanged code none is offered)
    C.append(_cfg("default[post=logit,prior=uniform]", "rescaletobounds", "post-logit", "default", [("a", "box", "logit")], dict(post_rescaling="logit", update_bounds=False, prior="uniform")))
    C.append(_cfg("default[post=log,prior=uniform]", "rescaletobounds", "post-log", "default", [("a", "box", "log")], dict(post_rescaling="log", update_bounds=False, prior="uniform")))
    C.append(_cfg("logit[prior=uniform]", "rescaletobounds", "post-logit", "logit", [("a", "box", "logit"), ("b", "box", "logit")], dict(prior="uniform")))
    C.append(_cfg("default[pre=log,post=logit]", "rescaletobounds", "post-logit", "default", [("a", "pos", "logit")],
                  dict(pre_rescaling="log", post_rescaling="logit", update_bounds=False)))
    for name, role in [("logit", "logit"), ("log-rescale", "log")]:
        C.append(_cfg(name, "rescaletobounds", f"post-{role}", name, [("a", "box", role), ("b", "box", role)]))
        C.append(_cfg(f"{name}[offset]", "rescaletobounds", f"post-{role}", name, [("a", "box", role)], dict(offset=True)))
    # ---- boundary inversion -----------------------------------------------------------------------------------
    tests = [("lower", "lower"), ("upper", "upper"), (False, "none"), (None, "detected")]
    for name, gw, typ in [("inversion", False, "split"), ("inversion-duplicate", False, "duplicate"), ("mass_ratio", True, "duplicate")]:
        for t, tt in tests:
            for cr in (False, True):
                if cr and t in (False, None) and name != "inversion":
                    continue
                fwd = dict(test=t, compute_radius=cr) if t is not None else dict(compute_radius=cr)
                C.append(_cfg(f"{name}[test={tt},compute_radius={cr}]", "rescaletobounds", f"inversion-{typ}-{tt}", name, lin1, gw=gw, fwd=fwd))
    for typ in ("split", "duplicate"):
        for t, tt in tests[:3]:
            C.append(_cfg(f"default[boundary_inversion=True,{typ},test={tt}]", "rescaletobounds", f"inversion-{typ}-{tt}", "default", lin2,
                          dict(boundary_inversion=True, inversion_type=typ), fwd=dict(test=t)))
    C.append(_cfg("default[boundary_inversion=[a],test=lower]", "rescaletobounds", "inversion-split-lower", "default", lin2,
                  dict(boundary_inversion=["a"]), fwd=dict(test="lower")))
    C.append(_cfg("default[boundary_inversion={b:duplicate},test=upper]", "rescaletobounds", "inversion-duplicate-upper", "default", lin2,
                  dict(boundary_inversion={"b": "duplicate"}), fwd=dict(test="upper")))
    for t, tt in tests:
        fwd = dict(test=t) if t is not None else {}
        C.append(_cfg(f"inversion[prior=uniform,test={tt}]", "rescaletobounds", f"inversion-split-{tt}-prime-prior", "inversion", lin1, dict(prior="uniform"), fwd=fwd))
        C.append(_cfg(f"inversion-duplicate[prior=uniform,offset,test={tt}]", "rescaletobounds", f"inversion-duplicate-{tt}-prime-prior", "inversion-duplicate", lin1,
                      dict(prior="uniform", offset=True), fwd=fwd))
    C.append(_cfg("inversion[offset,test=upper]", "rescaletobounds", "inversion-split-upper", "inversion", lin1, dict(offset=True), fwd=dict(test="upper")))
    C.append(_cfg("inversion[pre=log,test=lower]", "rescaletobounds", "inversion-split-lower", "inversion", [("a", "pos", "lin")], dict(pre_rescaling="log"), fwd=dict(test="lower")))
    # ---- distance (GW) ----------------------------------------------------------------------------------------
    dist = [("d", "dist", "lin")]
    for t, tt in [("upper", "upper"), ("lower", "lower-not-allowed"), (False, "none"), (None, "detected")]:
        fwd = dict(test=t) if t is not None else {}
        C.append(_cfg(f"distance[prior=None,test={tt}]", "distance", f"null-converter-{tt}", "distance", dist, gw=True, fwd=fwd))
    for power in (1, 2, 3, 2.5):
        for t, tt in [("upper", "upper"), (False, "none")]:
            C.append(_cfg(f"distance[power-law,power={power},test={tt}]", "distance", f"power-law-{tt}", "distance", dist,
                          dict(prior="power-law", converter_kwargs=dict(power=power)), gw=True, fwd=dict(test=t)))
    C.append(_cfg("distance[power-law,power=2,scale=10,detected]", "distance", "power-law-detected", "distance", dist,
                  dict(prior="power-law", converter_kwargs=dict(power=2, scale=10.0)), gw=True))
    C.append(_cfg("distance[power-law,power=2,no-inversion,update_bounds=False]", "distance", "power-law-no-inversion", "distance", dist,
                  dict(prior="power-law", converter_kwargs=dict(power=2), boundary_inversion=False, detect_edges=False, update_bounds=False), gw=True,
                  expect_unconstructible="DistanceReparameterisation(boundary_inversion=False) raises AttributeError ('detect_edges_kwargs') in its constructor"))
    C.append(_cfg("distance[power-law,power=3,allowed_bounds=both,test=lower]", "distance", "power-law-lower", "distance", dist,
                  dict(prior="power-law", converter_kwargs=dict(power=3), allowed_bounds=["lower", "upper"]), gw=True, fwd=dict(test="lower")))
    # ---- ScaleAndShift ----------------------------------------------------------------------------------------
    C.append(_cfg("scale[scale=2.5]", "scaleandshift", "fixed", "scale", lin2, dict(scale=2.5)))
    C.append(_cfg("rescale[scale=list]", "scaleandshift", "fixed", "rescale", lin2, dict(scale=[0.5, 3e3])))
    C.append(_cfg("scaleandshift[scale=dict,shift=1.5]", "scaleandshift", "fixed", "scaleandshift", lin2, dict(scale={"a": 2.0, "b": 1e-3}, shift=1.5)))
    C.append(_cfg("scaleandshift[scale=-3,shift=list]", "scaleandshift", "fixed", "scaleandshift", lin2, dict(scale=-3.0, shift=[-7.0, 1e4])))
    C.append(_cfg("scale[scale=4,no prior bounds]", "scaleandshift", "fixed", "scale", lin2, dict(scale=4), no_prior_bounds=True))
    C.append(_cfg("scaleandshift[estimate_scale]", "scaleandshift", "estimated", "scaleandshift", lin2, dict(estimate_scale=True)))
    C.append(_cfg("scaleandshift[scale=2,estimate_shift]", "scaleandshift", "estimated", "scaleandshift", lin2, dict(scale=2.0, estimate_shift=True)))
    C.append(_cfg("scaleandshift[estimate_scale,shift=0.5]", "scaleandshift", "estimated", "scaleandshift", lin2, dict(estimate_scale=True, shift=0.5)))
    C.append(_cfg("zscore", "scaleandshift", "estimated", "zscore", lin2))
    C.append(_cfg("z-score", "scaleandshift", "estimated", "z-score", [("a", "box", "lin"), ("b", "box", "lin"), ("c", "box", "lin")]))
    # ---- Angle ------------------------------------------------------------------------------------------------
    rad = ("r", "radial", "radial")
    for name, s in [("angle", 1.0), ("angle-2pi", 1.0), ("angle-pi", 2.0)]:
        for kind, role in [("zero_full", "ang_zero"), ("sym_full", "ang_sym"), ("zero_part", "ang_part"), ("sym_part", "ang_part")]:
            for with_r in (False, True):
                ps = [("a", f"ang:{s}:{kind}", role)] + ([rad] if with_r else [])
                C.append(_cfg(f"{name}[{kind}{',radial' if with_r else ''}]", "angle", "fixed-scale", name, ps,
                              dict(prior=None) if kind.endswith("part") and name != "angle" else {}))
    for s in (0.5, 2.0, 3.0):
        C.append(_cfg(f"angle[scale={s},zero_full]", "angle", "fixed-scale", "angle", [("a", f"ang:{s}:zero_full", "ang_zero")], dict(scale=s)))
        C.append(_cfg(f"angle[scale={s},sym_full,radial,prior=uniform]", "angle", "fixed-scale-prime-prior", "angle", [("a", f"ang:{s}:sym_full", "ang_sym"), rad],
                      dict(scale=s, prior="uniform")))
    C.append(_cfg("angle[prior=uniform,zero_full]", "angle", "fixed-scale-prime-prior", "angle", [("a", "ang:1.0:zero_full", "ang_zero")], dict(prior="uniform")))
    C.append(_cfg("angle[prior=sine]", "angle", "sine-prime-prior", "angle", [("a", ("fix", 0.0, PI), "pole")], dict(prior="sine")))
    C.append(_cfg("angle[prior=sine,radial]", "angle", "sine-prime-prior", "angle", [("a", ("fix", 0.0, PI), "pole"), rad], dict(prior="sine")))
    for s in (1.0, 2.0):
        C.append(_cfg(f"angle[scale={s},shifted bounds]", "angle", "fixed-scale-shifted", "angle", [("a", f"ang:{s}:shift", "ang_part")], dict(scale=s)))
    for kind, role in [("zero", "ang_zero"), ("sym", "ang_sym"), ("shift", "ang_sym")]:
        for with_r in (False, True):
            for prior in (None, "uniform"):
                ps = [("a", f"per:{kind}", role)] + ([rad] if with_r else [])
                C.append(_cfg(f"periodic[{kind}{',radial' if with_r else ''}{',prior=uniform' if prior else ''}]", "angle", "periodic", "periodic", ps,
                              dict(prior=prior) if prior else {}))
    # ---- ToCartesian ------------------------------------------------------------------------------------------
    for mode in ("split", "duplicate", "half"):
        for with_r in (False, True):
            for prior in (None, "uniform"):
                for cr in (False, True):
                    if cr and (mode == "duplicate" or prior):
                        continue
                    ps = [("a", "box", "lin")] + ([rad] if with_r else [])
                    opts = dict(mode=mode)
                    if prior:
                        opts["prior"] = prior
                    C.append(_cfg(f"to-cartesian[{mode}{',radial' if with_r else ''}{',prior=uniform' if prior else ''}{',compute_radius' if cr else ''}]",
                                  "tocartesian", mode + ("-prime-prior" if prior else ""), "to-cartesian", ps, opts, fwd=dict(compute_radius=True) if cr else {}))
    for mode in ("split", "half"):
        C.append(_cfg(f"to-cartesian[{mode},prior=uniform,upper bound <= 0]", "tocartesian", mode + "-prime-prior", "to-cartesian", [("a", "nonpos", "lin")],
                      dict(mode=mode, prior="uniform")))
    # ---- AnglePair --------------------------------------------------------------------------------------------
    ra_mod, ra_sym = ("ra", ("fix", 0.0, 2 * PI), "ra_mod"), ("ra", ("fix", -PI, PI), "ra_sym")
    dec, zen = ("dec", ("fix", -PI / 2, PI / 2), "pole"), ("zen", ("fix", 0.0, PI), "pole")
    for name, gw, vert in [("angle-pair", False, dec), ("angle-pair", False, zen), ("sky-ra-dec", True, dec), ("sky-az-zen", True, zen)]:
        for hz in (ra_mod, ra_sym):
            for with_r in (False, True):
                for prior in (None, "isotropic"):
                    for order in (0, 1):
                        if order and (prior or hz is ra_sym):
                            continue
                        ps = [hz, vert] + ([rad] if with_r else [])
                        if order:
                            ps = ps[::-1]
                        conv = "ra-dec" if vert is dec else "az-zen"
                        C.append(_cfg(f"{name}[{conv},{hz[2]}{',radial' if with_r else ''}{',isotropic' if prior else ''}{',reordered' if order else ''}]",
                                      "anglepair", conv + ("-prime-prior" if prior and not with_r else ""), name, ps, dict(prior=prior) if prior else {}, gw=gw))
    # ---- Null -------------------------------------------------------------------------------------------------
    for name in ("none", "null", None):
        C.append(_cfg(f"{name}", "null", "identity", name, lin2))
    C.append(_cfg("null[no prior bounds]", "null", "identity", "null", lin2, no_prior_bounds=True))
    # ---- DeltaPhase with its requirements (object level: CombinedReparameterisation, reverse order) -----------------
    for name in ("delta_phase", "delta-phase"):
        C.append(_cfg(f"{name}+angle-pi(psi)+angle-sine(theta_jn)", "deltaphase", "combined-reverse", name,
                      [("psi", ("fix", 0.0, PI), "ang_zero"), ("theta_jn", ("fix", 0.0, PI), "lin"), ("phase", ("fix", 0.0, 2 * PI), "phase")], gw=True, level="combined",
                      parts=[("angle-pi", ["psi"], {}), ("angle-sine", ["theta_jn"], {}), (name, ["phase"], {})]))
    C.append(_cfg("delta_phase+default(psi,theta_jn)", "deltaphase", "combined-reverse", "delta_phase",
                  [("psi", ("fix", 0.0, PI), "lin"), ("theta_jn", ("fix", 0.0, PI), "lin"), ("phase", ("fix", 0.0, 2 * PI), "phase")], gw=True, level="combined",
                  parts=[("default", ["psi", "theta_jn"], {}), ("delta_phase", ["phase"], {})]))
    # ---- proposal level ---------------------------------------------------------------------------------------
    x4 = [("x0", "box", "lin"), ("x1", "box", "lin"), ("x2", "box", "lin"), ("x3", "box", "lin")]
    P = []
    P.append(dict(label="FlowProposal[None->fallback zscore]", params=x4, rp=None))
    P.append(dict(label="FlowProposal['default' for all]", params=x4, rp="default"))
    P.append(dict(label="FlowProposal[fallback=default]", params=x4, rp=None, kw=dict(fallback_reparameterisation="default")))
    P.append(dict(label="FlowProposal[fallback=None]", params=x4, rp={"x0": "default"}, kw=dict(fallback_reparameterisation=None)))
    P.append(dict(label="FlowProposal[per-parameter strings]", params=[("x0", "box", "lin"), ("x1", "box", "logit"), ("x2", "box", "lin"), ("x3", "box", "lin")],
                  rp={"x0": "default", "x1": "logit", "x2": "inversion", "x3": None}))
    P.append(dict(label="FlowProposal[per-parameter dicts,inversion-duplicate]", params=x4,
                  rp={"x0": {"reparameterisation": "inversion-duplicate"}, "x1": {"reparameterisation": "default", "rescale_bounds": [0.0, 1.0], "offset": True},
                      "x2": {"reparameterisation": "scale", "scale": 3.0}}))
    P.append(dict(label="FlowProposal[regex parameters,angle-pi]", params=x4 + [("psi", ("fix", 0.0, PI), "ang_zero")],
                  rp={"default": {"parameters": ["x[01]", "x3"]}, "angle-pi": {"parameters": ["psi"]}}))
    P.append(dict(label="FlowProposal[angle with radial,log-rescale]", params=[("phi", "ang:1.0:zero_full", "ang_zero"), ("r", "radial", "radial"), ("x0", "box", "log")],
                  rp={"angle": {"parameters": ["phi", "r"]}, "log-rescale": {"parameters": ["x0"]}}))
    P.append(dict(label="FlowProposal[angle-pair,to-cartesian,periodic]", params=[ra_mod, dec, ("x0", "box", "lin"), ("t", "per:sym", "ang_sym")],
                  rp={"angle-pair": {"parameters": ["ra", "dec"]}, "to-cartesian": {"parameters": ["x0"]}, "periodic": {"parameters": ["t"]}}))
    P.append(dict(label="FlowProposal[reverse order]", params=x4, rp={"x0": "inversion", "z-score": {"parameters": ["x1", "x2"]}}, kw=dict(reverse_reparameterisations=True)))
    P.append(dict(label="FlowProposal[all prime priors]", params=x4[:2] + [("psi", ("fix", 0.0, PI), "ang_zero"), ra_mod, dec],
                  rp={"default": {"parameters": ["x0"], "prior": "uniform"}, "inversion": {"parameters": ["x1"], "prior": "uniform"},
                      "angle-pi": {"parameters": ["psi"]}, "angle-pair": {"parameters": ["ra", "dec"], "prior": "isotropic"}}))
    P.append(dict(label="FlowProposal[extra INS fields registered]", params=x4, rp={"x0": "inversion-duplicate", "x1": "offset"}, extra_fields=["logQ", "logW", "logU"]))
    P.append(dict(label="FlowProposal[periodic on shifted bounds]", params=[("t", "per:shift", "ang_sym"), ("x0", "box", "lin")], rp={"t": "periodic"}))
    gwp = [("chirp_mass", ("fix", 25.0, 35.0), "lin"), ("mass_ratio", ("fix", 0.125, 1.0), "lin"), ra_mod, dec, ("theta_jn", ("fix", 0.0, PI), "lin"),
           ("psi", ("fix", 0.0, PI), "ang_zero"), ("phase", ("fix", 0.0, 2 * PI), "ang_zero"), ("geocent_time", ("fix", 1126259462.3, 1126259462.5), "lin"),
           ("luminosity_distance", "dist", "lin"), ("a_1", ("fix", 0.0, 0.99), "lin"), ("a_2", ("fix", 0.0, 0.99), "lin"), ("tilt_1", ("fix", 0.0, PI), "lin"),
           ("tilt_2", ("fix", 0.0, PI), "lin"), ("phi_12", ("fix", 0.0, 2 * PI), "ang_zero"), ("phi_jl", ("fix", 0.0, 2 * PI), "ang_zero")]
    P.append(dict(label="GWFlowProposal[default 15-parameter set]", params=gwp, rp=None, gw=True))
    P.append(dict(label="GWFlowProposal[default 15-parameter set,time window around 0]", rp=None, gw=True,
                  params=[p if p[0] != "geocent_time" else ("geocent_time", ("fix", -0.1, 0.1), "lin") for p in gwp]))
    P.append(dict(label="GWFlowProposal[az-zen sky,time_jitter periodic]", gw=True, rp=None,
                  params=[("azimuth", ("fix", 0.0, 2 * PI), "ra_mod"), ("zenith", ("fix", 0.0, PI), "pole"), ("time_jitter", ("fix", -0.000125, 0.000125), "ang_sym"),
                          ("chirp_mass", "pos", "lin"), ("iota", ("fix", 0.0, PI), "lin"), ("chi_1", ("fix", -1.0, 1.0), "lin")]))
    P.append(dict(label="GWFlowProposal[power-law distance,all prime priors]", gw=True,
                  params=[("luminosity_distance", "dist", "lin"), ra_mod, dec, ("psi", ("fix", 0.0, PI), "ang_zero"), ("phase", ("fix", 0.0, 2 * PI), "ang_zero"), ("a_1", ("fix", 0.0, 0.99), "lin")],
                  rp={"luminosity_distance": {"reparameterisation": "distance", "prior": "power-law", "converter_kwargs": {"power": 2}},
                      "sky-ra-dec": {"parameters": ["ra", "dec"], "prior": "isotropic"}, "a_1": {"reparameterisation": "default", "prior": "uniform"}}))
    P.append(dict(label="GWFlowProposal[delta_phase,reverse order]", gw=True, kw=dict(reverse_reparameterisations=True),
                  params=[("psi", ("fix", 0.0, PI), "ang_zero"), ("theta_jn", ("fix", 0.0, PI), "lin"), ("phase", ("fix", 0.0, 2 * PI), "phase"), ("chirp_mass", "pos", "lin")],
                  rp={"psi": "angle-pi", "theta_jn": "angle-sine", "delta_phase": {"parameters": ["phase"]}}))
    for p in P:
        for t, tt in [(None, "detected"), ("lower", "lower"), ("upper", "upper"), (False, "none")]:
            for cr in (False, True):
                if cr and t in ("lower", False):
                    continue
                fwd = dict(compute_radius=cr)
                if t is not None:
                    fwd["test"] = t
                C.append(_cfg(f"{p['label']}[test={tt},compute_radius={cr}]", "proposal", p["label"].split("[", 1)[1].rstrip("]"), None, p["params"], level="proposal",
                              fwd=fwd, rp=p["rp"], gw=p.get("gw", False), kw=p.get("kw", {}), extra_fields=p.get("extra_fields"), verify=(t is None and not cr)))
    return C


def elementary_cells():
    """(label, factory) for the pure maps of utils/rescaling.py and the power-law distance converter."""
    out = []
    for region in ("near_lower", "near_upper", "interior"):
        out.append((f"logit/sigmoid[{region}]", "logit", region))
    for region in ("near_lower", "interior"):
        out.append((f"log/exp[{region}]", "log", region))
        for power in (1, 2, 3, 2.5):
            out.append((f"power-law-converter[power={power},{region}]", f"power:{power}", region))
    out.append(("exp/log[interior]", "exp", "interior"))
    for region in ("near_lower", "near_upper", "bounds"):
        out.append((f"rescale_zero_to_one[{region}]", "r01", region))
        out.append((f"rescale_minus_one_to_one[{region}]", "r11", region))
    return out


_CELLS = {}


def build_cells(tier):
    """Deterministic cell list of a tier (independent of the seed): dicts with cfg index | elem index, state, point class, n."""
    if tier not in _CELLS:
        _CELLS[tier] = _build_cells(tier)
    return _CELLS[tier]


def _build_cells(tier):
    C = build_configs()
    cells = []
    quick = tier == "quick"
    reps = 2 if quick else 12
    for rep in range(reps):
        for i, c in enumerate(C):
            if c["level"] == "proposal":
                # proposals: fewer point classes per configuration (many forward-option variants each)
                combos = [("pre", POINT_CLASSES[(i + rep) % 5]), ("post", POINT_CLASSES[(i + rep + 2) % 5])]
                if not quick:
                    combos += [("post", "interior"), ("pre", "mixed")]
                if quick and ((i + rep) % 3):
                    combos = combos[(i + rep + 1) % 2:][:1]
                else:
                    combos += [("reset", POINT_CLASSES[(i + rep + 1) % 5])]
            else:
                combos = [(s, p) for s in ("pre", "post") for p in POINT_CLASSES]
                if quick:
                    combos = [combos[(3 * i + 7 * rep) % 10], combos[(3 * i + 5 + (i % 4) + 3 * rep) % 10]]
                    if combos[0] == combos[1]:
                        combos = combos[:1]
                    combos += [("reset", POINT_CLASSES[(i + 2 * rep) % 5])]
                else:
                    combos += [("reset", p) for p in POINT_CLASSES]
            for s, p in combos:
                cells.append(dict(cfg=i, state=s, pcls=p))
    for rep in range(2 if quick else 40):
        for k, _ in enumerate(elementary_cells()):
            cells.append(dict(elem=k, state="pre", pcls=elementary_cells()[k][2]))
    for n, c in enumerate(cells):
        c["n"] = n
    return C, cells


# =================================================================================================================
# building the objects of a cell
# =================================================================================================================
def make_map(cfg, bounds, scratch):
    from nessai.reparameterisations import CombinedReparameterisation, get_reparameterisation
    from nessai.gw.reparameterisations import get_gw_reparameterisation
    from vlib.oracles.reparam_fd import ObjMap, PropMap

    getter = get_gw_reparameterisation if cfg["gw"] else get_reparameterisation

    def one(name, params, opts):
        rc, kw = getter(name)
        kw = dict(kw)
        kw.update(opts)
        pb = None if cfg.get("no_prior_bounds") else {p: np.array(bounds[p], dtype=float) for p in params}
        return rc(parameters=list(params), prior_bounds=pb, **kw)

    if cfg["level"] == "object":
        import copy

        return ObjMap(one(cfg["name"], [p[0] for p in cfg["params"]], copy.deepcopy(cfg["opts"])))
    if cfg["level"] == "combined":
        comb = CombinedReparameterisation(reverse_order=True)
        for name, params, opts in cfg["parts"]:
            comb.add_reparameterisations(one(name, params, dict(opts)))
        comb.check_order()
        return ObjMap(comb, comps=list(comb.values()))
    # proposal
    from nessai.gw.proposal import GWFlowProposal
    from nessai.model import Model
    from nessai.proposal.flowproposal import FlowProposal

    class Box(Model):
        def __init__(s):
            s.names = [p[0] for p in cfg["params"]]
            s.bounds = {k: np.array(bounds[k], dtype=float) for k in s.names}

        def log_prior(s, x):
            with np.errstate(divide="ignore"):
                return np.log(s.in_bounds(x).astype(float))

        def log_likelihood(s, x):
            return np.zeros(x.size)

    import copy

    cls = GWFlowProposal if cfg["gw"] else FlowProposal
    prop = cls(Box(), output=scratch, poolsize=100, plot=False, reparameterisations=copy.deepcopy(cfg["rp"]), **cfg.get("kw", {}))
    prop.set_rescaling()
    return PropMap(prop)


def fill(m, names_bounds, rng, n, values):
    """Structured array in the map's input space with seeded non-sampling fields."""
    from vlib.oracles.reparam_fd import nonsampling_names, struct

    names = m.parameters if m.level == "object" else list(names_bounds)
    x = struct(names, n)
    for p, v in values.items():
        x[p] = v
    for f in nonsampling_names():
        if f == "it":
            x[f] = rng.integers(-5, 10000, n)
        else:
            v = rng.normal(0, 100, n)
            v[rng.random(n) < 0.05] = np.nan
            v[rng.random(n) < 0.02] = -np.inf
            x[f] = v
    return x


def inversion_parameters(comps):
    from nessai.reparameterisations import RescaleToBounds

    out = set()
    for r in comps:
        if isinstance(r, RescaleToBounds) and r.boundary_inversion:
            out |= set(r.boundary_inversion)
    return out


def angle_defect_predicate(comps):
    """Angle components whose inverse cannot reach the whole interval: lower bound not 0 and scaled interval not inside [-pi, pi]."""
    from nessai.reparameterisations import Angle, ToCartesian

    out = {}
    for r in comps:
        if isinstance(r, Angle) and not isinstance(r, ToCartesian):
            lo, hi = (float(v) for v in r.prior_bounds[r.angle])
            s = float(r.scale)
            inside = (lo * s >= -PI * (1 + 1e-12)) and (hi * s <= PI * (1 + 1e-12))
            injective = (hi - lo) * s <= 2 * PI * (1 + 1e-12)
            if lo != 0 and not inside and injective:
                out[r.angle] = dict(period=2 * PI / s, scale=s, periodic=abs((hi - lo) * s - 2 * PI) <= 1e-9 * 2 * PI)
    return out


# =================================================================================================================
# one cell
# =================================================================================================================
def run_elementary(seed, n, k, npts):
    from nessai.gw.utils import PowerLawConverter
    from nessai.utils import rescaling as rs
    from vlib.oracles.reparam_fd import elementary_check

    LD = np.longdouble
    rng = rng_for(seed, "C07", n)
    label, kind, region = elementary_cells()[k]
    t = (LD(10) ** rng.uniform(-15, -1, npts).astype(LD))
    probs, counts, margins = [], {}, {}
    if kind == "logit":
        f, finv = rs.logit, rs.sigmoid
        if region == "near_upper":
            t = LD(10) ** rng.uniform(-14, -1, npts).astype(LD)  # longdouble resolves the gap 1-u to 5e-20 only
        u = {"near_lower": t, "near_upper": LD(1) - t, "interior": rng.uniform(0.05, 0.95, npts).astype(LD)}[region]
        sd = np.minimum(u, LD(1) - u) if region != "near_upper" else t
        scale = LD(1)
    elif kind == "log":
        f, finv = rs.log_with_log_jacobian, rs.exp_with_log_jacobian
        u = t if region == "near_lower" else (LD(10) ** rng.uniform(-1, 6, npts).astype(LD))
        sd, scale = u, u
    elif kind == "exp":
        f, finv = rs.exp_with_log_jacobian, rs.log_with_log_jacobian
        u = rng.uniform(-30, 30, npts).astype(LD)
        sd, scale = np.ones(npts, dtype=LD), LD(30)
    elif kind.startswith("power:"):
        power = float(kind.split(":")[1])
        pc = PowerLawConverter(power=power, scale=float(10 ** rng.uniform(0, 3)))
        f, finv = pc.to_uniform_parameter, pc.from_uniform_parameter
        u = t * LD(pc.scale) if region == "near_lower" else LD(pc.scale) * (LD(10) ** rng.uniform(-1, 2, npts).astype(LD))
        sd, scale = u, u
    else:
        w = 10 ** rng.uniform(-6, 6)
        lo = float(rng.choice([0.0, -w / 2, w * 10 ** rng.uniform(-2, 3), -w * 10 ** rng.uniform(-2, 3)]))
        hi = lo + w
        fw, bw = (rs.rescale_zero_to_one, rs.inverse_rescale_zero_to_one) if kind == "r01" else (rs.rescale_minus_one_to_one, rs.inverse_rescale_minus_one_to_one)
        f, finv = (lambda v: fw(v, lo, hi)), (lambda v: bw(v, lo, hi))
        u = {"near_lower": LD(lo) + LD(w) * t, "near_upper": LD(hi) - LD(w) * t, "bounds": np.where(rng.random(npts) < 0.5, LD(lo), LD(hi))}[region]
        sd, scale = np.full(npts, LD(w)), LD(max(abs(lo), abs(hi), w))
    res = elementary_check(f, finv, u, sd)
    eps_ld = float(np.finfo(LD).eps)
    fam = "elementary:" + label.split("[")[0]
    # round trip: 1e-12 of the scale of the argument (extended precision)
    rt_tol = 1e-12 * np.abs(np.asarray(scale, dtype=LD)) + 64 * eps_ld * np.abs(u)
    m = float(np.max(res["round_trip"] / rt_tol))
    margins["elementary-round-trip"] = m
    counts["elementary_round_trip_points"] = npts
    if not m <= 1:
        j = int(np.argmax(res["round_trip"] / rt_tol))
        probs.append((f"C07:{fam}:round-trip", f"{label}: inverse(forward(u)) - u = {float(res['round_trip'][j]):.3e} at u={float(u[j])!r} (longdouble)"))
    cond = (LD(1) / np.maximum(np.asarray(sd, dtype=LD), LD(1e-4000))) if kind == "logit" else np.ones(npts, dtype=LD)  # log1p(-u) at u'' = u +- eps
    pair_tol = 1e-9 + 256 * eps_ld * (np.asarray(cond, dtype=LD) + np.abs(res["lj"]))
    m = float(np.max(res["pair"] / pair_tol))
    margins["elementary-jacobian-pairing"] = m
    counts["elementary_pairing_points"] = npts
    if not m <= 1:
        j = int(np.argmax(res["pair"] / pair_tol))
        probs.append((f"C07:{fam}:jacobian-pairing", f"{label}: log_J + log_J_inv = {float(res['pair'][j]):.3e} at u={float(u[j])!r} (longdouble)"))
    used = 0
    worst = 0.0
    for direction in ("fwd", "inv"):
        sel = res["use_" + direction]
        used += int(sel.sum())
        if sel.any():
            e = res["jac_" + direction][sel]
            worst = max(worst, float(np.max(e)) if np.all(np.isfinite(e.astype(float))) else np.inf)
            if not np.all(e <= 1e-9):
                j = int(np.argmax(np.where(np.isfinite(e.astype(float)), e, np.inf)))
                probs.append((f"C07:{fam}:true-jacobian", f"{label}: reported log-Jacobian ({direction}) differs from log|d/du| of the implemented map by {float(e[j]):.3e} "
                                                        f"at u={float(u[sel][j])!r} (longdouble central differences)"))
    either = res["use_fwd"] | res["use_inv"]
    counts["elementary_true_jacobian_points"] = int(either.sum())
    margins["elementary-true-jacobian"] = worst / 1e-9
    return dict(n=n, label="elementary:" + label, family=fam, pcls=region, state="pre", problems=probs, counts=counts, margins=margins, offsets={},
                nontrivial=bool(either.sum() > 0), closest=float(np.min(np.asarray(sd / np.maximum(np.abs(np.asarray(scale, dtype=LD)), LD(1e-300)), dtype=float))))


def run_cell(seed, tier, n, scratch="/tmp"):
    import nessai.livepoint as lpm
    from vlib.oracles import reparam_fd as fd

    logging.getLogger("nessai").setLevel(logging.ERROR)
    C, cells = build_cells(tier)
    cell = cells[n]
    npts = 256 if tier == "quick" else 2048
    if "elem" in cell:
        return run_elementary(seed, n, cell["elem"], npts)
    cfg = C[cell["cfg"]]
    rng = rng_for(seed, "C07", n)
    np.random.seed(int(rng.integers(0, 2 ** 31 - 1)))  # nessai's forward maps draw radii / signs from the global generator
    lpm.reset_extra_live_points_parameters()
    if cfg.get("extra_fields"):
        lpm.add_extra_parameters_to_live_points(list(cfg["extra_fields"]), [0.0, np.nan, -1.0][: len(cfg["extra_fields"])])
    try:
        return _run_cell(cfg, cell, rng, npts, n, scratch, fd)
    finally:
        lpm.reset_extra_live_points_parameters()


def _key(cfg, monitor):
    return f"C07:{cfg['family']}:{cfg['variant']}:{monitor}"


def _run_cell(cfg, cell, rng, npts, n, scratch, fd):
    probs, counts, margins, offsets = [], {}, {}, {}
    label, state, pcls = cfg["label"], cell["state"], cell["pcls"]
    res = dict(n=n, label=label, family=cfg["family"], pcls=pcls, state=state, problems=probs, counts=counts, margins=margins, offsets=offsets, nontrivial=False)

    def bump(name, k=1):
        counts[name] = counts.get(name, 0) + int(k)

    def margin(name, v):
        if v <= 1:  # worst_margin = closest a tolerance came to firing; a fired tolerance is a violation, reported as such
            margins[name] = max(margins.get(name, 0.0), float(v))

    bounds = {p: draw_bounds(rng, fam) for p, fam, _ in cfg["params"]}
    roles = {p: role for p, _, role in cfg["params"]}
    res["bounds"] = {p: list(b) for p, b in bounds.items()}
    try:
        m = make_map(cfg, bounds, scratch)
    except Exception as e:
        # not accepted at initialisation: outside the quantifier.  Expected ones are listed as not reached, any other is a harness problem.
        if cfg.get("expect_unconstructible"):
            res["not_reached"] = f"{label}: {cfg['expect_unconstructible']} [{type(e).__name__}: {str(e)[:80]}]"
        else:
            res["harness_error"] = f"{label} on bounds {bounds} could not be constructed: {type(e).__name__}: {str(e)[:300]}"
        return res
    if cfg.get("expect_unconstructible"):
        res["now_constructible"] = True
    defect = angle_defect_predicate(m.comps)
    eff = {p: tuple(b) for p, b in bounds.items()}
    excluded_note = None
    if state in ("post", "reset"):
        cloud_vals = {}
        for p, (lo, hi) in bounds.items():
            a = lo + rng.uniform(0, 0.6) * (hi - lo)
            w = rng.uniform(0.05, 1.0) * (hi - a)
            shape = rng.integers(3)
            t = rng.uniform(0, 1, 500) if shape == 0 else (rng.beta(1, 4, 500) if shape == 1 else rng.beta(4, 1, 500))
            cloud_vals[p] = np.clip(a + w * t, np.nextafter(lo, hi), np.nextafter(hi, lo))
        cloud = fill(m, bounds, rng, 500, cloud_vals)
        if n % 2:
            # use the maps once before the update (as a sampler does): nothing computed then may survive the data-dependent update
            try:
                with np.errstate(all="ignore"):
                    _w = fill(m, bounds, rng, 16, {p: np.clip(cloud_vals[p][:16], np.nextafter(bounds[p][0], bounds[p][1]), np.nextafter(bounds[p][1], bounds[p][0])) for p in bounds})
                    _, _wp, _ = m.fwd(_w, **dict(cfg["fwd"]))
                    m.inv(_wp)
                bump("warm_up_uses_before_update")
            except Exception:
                bump("warm_up_errors")
        try:
            m.update(cloud)
        except Exception as e:
            probs.append((_key(cfg, f"exception:{type(e).__name__}@update"), f"{label} on bounds {bounds}: update raised {type(e).__name__}: {str(e)[:200]}"))
            return res
        bump("updates")
        if state == "reset":
            # update followed by reset(): the object must behave like a fresh one again (this is what verify_rescaling and FlowProposal.reset rely on)
            try:
                m.reset()
            except Exception as e:
                probs.append((_key(cfg, f"exception:{type(e).__name__}@reset"), f"{label} on bounds {bounds}: reset raised {type(e).__name__}: {str(e)[:200]}"))
                return res
            bump("resets")
        for p in (inversion_parameters(m.comps) & set(bounds) if state == "post" else ()):
            eff[p] = (float(cloud_vals[p].min()), float(cloud_vals[p].max()))
            excluded_note = "post-update points restricted to the updated range for inversion parameters"
    values = {}
    for p, (lo, hi) in eff.items():
        sing = singular_ends(roles[p], *bounds[p]) if eff[p] == tuple(bounds[p]) else set()
        values[p] = draw_coord(rng, lo, hi, pcls, npts, sing)
    x = fill(m, bounds, rng, npts, values)
    fwd_kw = dict(cfg["fwd"])
    # ---- forward / inverse on the real objects --------------------------------------------------------------
    try:
        with np.errstate(all="ignore"):
            x2, xp, lj = m.fwd(x, **fwd_kw)
            xr, lji = m.inv(xp)
    except Exception as e:
        probs.append((_key(cfg, f"exception:{type(e).__name__}@rescale"), f"{label} ({state}, {pcls}) on bounds {bounds}: {type(e).__name__}: {str(e)[:200]}"))
        return res
    lj, lji = np.asarray(lj, dtype=float), np.asarray(lji, dtype=float)
    ratio = xp.size // x.size if x.size else 0
    if xp.size != ratio * x.size or ratio < 1 or xr.size != xp.size or lj.size != xp.size or lji.size != xp.size:
        probs.append((_key(cfg, "replica-blocks"), f"{label}: {x.size} points became {xp.size} prime points, {xr.size} returned, {lj.size}/{lji.size} Jacobians"))
        return res
    xt = np.concatenate([x] * ratio) if ratio > 1 else x
    res["ratio"] = ratio
    # non-sampling fields and inputs unchanged
    ns = fd.nonsampling_names()
    if m.level == "object":
        if x2.dtype != xt.dtype or x2.tobytes() != xt.tobytes():
            bad = [f for f in xt.dtype.names if x2[f].tobytes() != xt[f].tobytes()] if x2.dtype == xt.dtype else ["dtype"]
            probs.append((_key(cfg, "input-changed-by-forward-map"), f"{label}: reparameterise changed fields {bad} of x"))
    else:
        for arr, what in ((xp, "rescale"), (xr, "inverse_rescale")):
            for f in ns:
                if f not in arr.dtype.names or arr[f].tobytes() != xt[f].astype(arr[f].dtype).tobytes():
                    probs.append((_key(cfg, "non-sampling-field-changed"), f"{label}: non-sampling field {f} changed through {what}"))
    bump("non_sampling_comparisons", len(ns) * xp.size)
    with np.errstate(all="ignore"):
        ok, cond, steps, reasons = fd.analyse(m.comps, xr, xp)
    # ---- round trip -----------------------------------------------------------------------------------------
    rt_fail = {}
    from nessai.reparameterisations import ScaleAndShift

    user_shift = {}  # x = x'*scale + shift is rounded at the magnitude of a user-chosen shift, however small the box
    for r in m.comps:
        if isinstance(r, ScaleAndShift) and r.shift:
            user_shift.update({p: abs(float(v)) for p, v in r.shift.items()})
    for p, (lo, hi) in bounds.items():
        tol = 1e-9 * (hi - lo) + 64 * np.spacing(np.maximum(np.abs(xt[p]), max(abs(lo), abs(hi), user_shift.get(p, 0.0))))
        err = np.abs(xr[p] - xt[p])
        err = np.where(np.isfinite(err), err, np.inf)
        margin("round-trip", np.max(err / tol))
        bump("round_trip_points", err.size)
        badm = ~(err <= tol)
        if badm.any():
            rt_fail[p] = (badm, err)
    if rt_fail:
        known = None
        if defect and set(rt_fail) <= set(defect):
            known = True
            for p, (badm, err) in rt_fail.items():
                d = defect[p]
                th = xt[p] * d["scale"]
                outside = (th > PI) | (th < -PI)
                k = err[badm] / d["period"]
                shift_ok = np.all((np.abs(k - np.round(k)) <= 1e-6) & (np.round(k) >= 1))
                # the mechanism: exactly the points whose scaled angle leaves (-pi, pi] come back shifted by one period
                if not (shift_ok and np.all(outside[badm])):
                    known = False
        p0 = sorted(rt_fail)[0]
        badm, err = rt_fail[p0]
        j = int(np.argmax(np.where(badm, err, -1)))
        what = (f"{label} ({state}, {pcls}) on bounds {p0}={list(bounds[p0])}: x={xt[p0][j]!r} -> x'' = {xr[p0][j]!r} "
                f"(|x''-x| = {err[j]:.3e}, {int(badm.sum())} of {badm.size} points; allowed 1e-9*range + 64 ulp)")
        if known:
            d = defect[p0]
            key = PERIODIC_KEY if d["periodic"] else FIXED_ANGLE_KEY
            what += f"; Angle inverse only handles a lower bound of 0 (mod 2pi) or a scaled range inside [-pi, pi]: points with x*scale outside come back shifted by a multiple of the period {d['period']:.6g}"
        else:
            key = _key(cfg, "round-trip")
        probs.append((key, what))
    # ---- pairing --------------------------------------------------------------------------------------------
    tol = 1e-9 + 256 * EPS * (cond + np.abs(lj))
    e = np.abs(lj + lji)
    e = np.where(np.isfinite(lj) & np.isfinite(lji), e, np.inf)
    margin("jacobian-pairing", np.max(e / tol))
    bump("pairing_points", e.size)
    if not np.all(e <= tol):
        j = int(np.argmax(e / tol))
        probs.append((_key(cfg, "jacobian-pairing"), f"{label} ({state}, {pcls}) bounds {bounds}: log_J = {lj[j]!r}, log_J_inv = {lji[j]!r}, sum {e[j]:.3e} > {tol[j]:.1e} at x = "
                                                     f"{ {p: float(xt[p][j]) for p in bounds} }"))
    # ---- true Jacobian of the implemented inverse -----------------------------------------------------------------
    idx = np.flatnonzero(ok)
    res["fd_excluded"] = reasons
    if idx.size >= 8:
        if idx.size > 1024:
            idx = idx[:: int(np.ceil(idx.size / 1024))]
        try:
            with np.errstate(all="ignore"):
                ld, unconv, noise = fd.numeric_log_det_inverse(m, xp, steps, idx)
        except Exception as e:
            ld = None
            probs.append((_key(cfg, f"exception:{type(e).__name__}@inverse-near-image"), f"{label}: inverse raised near forward images: {type(e).__name__}: {str(e)[:200]}"))
        if ld is not None:
            if unconv.any():
                reasons["finite differences did not converge within 4 step refinements"] = int(unconv.sum())
                idx, ld, noise = idx[~unconv], ld[~unconv], noise[~unconv]
            coarse = ~(noise <= 2.5e-7)
            if coarse.any():
                reasons["float64 resolution of x too coarse for differences (|x| >> range)"] = int(coarse.sum())
                idx, ld, noise = idx[~coarse], ld[~coarse], noise[~coarse]
        if ld is not None and idx.size < 8:
            bump("cells_without_differentiable_points")
            ld = None
        if ld is not None:
            diff = lji[idx] - ld
            bump("true_jacobian_points", idx.size)
            bump("true_jacobian_cells")
            res["nontrivial"] = True
            if not np.all(np.isfinite(diff)):
                j = int(np.flatnonzero(~np.isfinite(diff))[0])
                probs.append((_key(cfg, "true-jacobian-spread"), f"{label} ({state}, {pcls}): reported log_J_inv {lji[idx][j]!r} vs numerical log|det| {ld[j]!r} at x' index {int(idx[j])}"))
                margin("true-jacobian-spread", np.inf)
            else:
                med = float(np.median(diff))
                dev = np.abs(diff - med)
                tolj = 1e-6 + 1e3 * EPS * cond[idx] + 4 * noise
                margin("true-jacobian-spread", np.max(dev / tolj))
                offsets[label] = med
                if not np.all(dev <= tolj):
                    j = int(np.argmax(dev / tolj))
                    probs.append((_key(cfg, "true-jacobian-spread"),
                                  f"{label} ({state}, {pcls}) bounds {bounds}: reported log_J_inv - numerical log|det dx/dx'| varies over the batch: median {med:+.6f}, "
                                  f"but {diff[j]:+.6f} at x = { {p: float(xt[p][idx[j]]) for p in bounds} } (spread {float(np.ptp(diff)):.3e} > 1e-6)"))
    else:
        bump("cells_without_differentiable_points")
    # ---- prime prior ----------------------------------------------------------------------------------------
    if m.has_prime_prior:
        with np.errstate(all="ignore"):
            lpp = m.prime_prior(xp)
            target = fd.original_log_prior(m.comps, xt, xr) - lj
        d = lpp - target
        bump("prime_prior_points", d.size)
        if not np.all(np.isfinite(lpp)):
            j = int(np.flatnonzero(~np.isfinite(lpp))[0])
            from nessai.reparameterisations import ToCartesian

            nonpos = [r for r in m.comps if isinstance(r, ToCartesian) and float(r.prior_bounds[r.parameters[0]][1]) <= 0]
            key = TOCART_KEY if nonpos and not np.any(np.isfinite(lpp)) else _key(cfg, "prime-prior-support")
            tocart_nan = key == TOCART_KEY
            probs.append((key, f"{label} ({state}, {pcls}) bounds {bounds}: prime prior is {lpp[j]!r} at the image of the box point "
                                                            f"{ {p: float(xt[p][j]) for p in bounds} } ({int((~np.isfinite(lpp)).sum())} of {lpp.size})"))
            margin("prime-prior-constant", np.inf)
        else:
            med = float(np.median(d))
            tolp = 1e-9 + 1024 * EPS * (cond + np.abs(lj) + np.abs(lpp))
            dev = np.abs(d - med)
            margin("prime-prior-constant", np.max(dev / tolp))
            if not np.all(dev <= tolp):
                j = int(np.argmax(dev / tolp))
                probs.append((_key(cfg, "prime-prior-constant"), f"{label} ({state}, {pcls}) bounds {bounds}: x_prime_log_prior - [log prior - log_J] = {d[j]:+.9f} at "
                                                                 f"{ {p: float(xt[p][j]) for p in bounds} } but median {med:+.9f}"))
        # support: prime prior finite <=> the implemented inverse lands in the box
        probe = xp.copy()
        for pp in m.prime_parameters:
            v = xp[pp][np.isfinite(xp[pp])]
            lo_, hi_ = (float(v.min()), float(v.max())) if v.size else (-1.0, 1.0)
            pbs = [r.prime_prior_bounds[pp] for r in m.comps if getattr(r, "prime_prior_bounds", None) and pp in r.prime_prior_bounds]
            if pbs and np.isfinite(pbs[0][0]) and np.isfinite(pbs[0][1]):
                lo_, hi_ = float(pbs[0][0]), float(pbs[0][1])    # (unbounded prime-prior bounds: probe around the image of the box instead)
            w = max(hi_ - lo_, 1e-300)
            probe[pp] = rng.uniform(lo_ - 0.3 * w, hi_ + 0.3 * w, probe.size)
        with np.errstate(all="ignore"):
            back, _ = m.inv(probe)
            finite = np.isfinite(m.prime_prior(probe))
        inside = np.ones(probe.size, bool)
        clear = np.ones(probe.size, bool)
        for p, (lo, hi) in bounds.items():
            if p in defect:
                continue  # already reported through the round trip (inverse returns x - k*period, outside the box)
            if roles[p] == "radial":
                continue  # the Cartesian prime priors document a chi-distributed radius on [0, inf), whatever the user's radial box
            inside &= (back[p] >= lo) & (back[p] <= hi)
            clear &= (np.abs(back[p] - lo) > 1e-9 * (hi - lo)) & (np.abs(back[p] - hi) > 1e-9 * (hi - lo))
        bump("prime_prior_support_points", int(clear.sum()))
        mism = clear & (inside != finite)
        if not np.all(np.isfinite(lpp)) and tocart_nan:
            mism[:] = False  # same mechanism, already reported
        if mism.any():
            j = int(np.flatnonzero(mism)[0])
            probs.append((_key(cfg, "prime-prior-support"), f"{label} ({state}): at x' = { {pp: float(probe[pp][j]) for pp in m.prime_parameters} } the prime prior is "
                                                            f"{'finite' if finite[j] else '-inf'} but the inverse gives { {p: float(back[p][j]) for p in bounds} } which is "
                                                            f"{'inside' if inside[j] else 'outside'} the box {bounds} ({int(mism.sum())} of {int(clear.sum())} probes)"))
    # ---- nessai's own verification at the proposal level ---------------------------------------------------------
    if m.level == "proposal" and cfg.get("verify") and state == "pre":
        bump("verify_rescaling_calls")
        try:
            m.prop.verify_rescaling()
        except Exception as e:
            if defect and all(d["periodic"] for d in defect.values()) and "not invertible for" in str(e) and any(f"for {p} " in str(e) for p in defect):
                key = PERIODIC_KEY
            else:
                key = _key(cfg, f"exception:{type(e).__name__}@verify_rescaling")
            tocart_nan = key == TOCART_KEY
            probs.append((key, f"{label} on bounds {bounds}: verify_rescaling raised {type(e).__name__}: {str(e)[:160]}"))
    if excluded_note:
        res["excluded"] = excluded_note
    res["edges"] = {r.name: {k: (v if v is None else str(v)) for k, v in r._edges.items()} for r in m.comps if getattr(r, "_edges", None)}
    res["nontrivial"] = bool(res["nontrivial"] or counts.get("round_trip_points", 0) > 0)
    return res


# =================================================================================================================
# farm worker / main
# =================================================================================================================
def worker(case):
    assert_repo()
    out = []
    for n in case["ids"]:
        try:
            out.append(run_cell(case["seed"], case["tier"], n, case.get("scratch", "/tmp")))
        except Exception as e:
            import traceback

            out.append(dict(n=n, label="?", family="harness", pcls="?", state="?", counts={}, margins={}, offsets={}, nontrivial=False,
                            problems=[], harness_error=f"{type(e).__name__}: {e}\n{traceback.format_exc()[-1500:]}"))
    return dict(results=out)


def main():
    chk = Check("C07", "exploration")
    chk.max_inconclusive = 0    # every cell is deterministic and cheap: a cell the harness could not decide (an exception inside it) makes the whole check inconclusive
    assert_repo()
    logging.getLogger("nessai").setLevel(logging.ERROR)
    from vlib.farm import run_cases

    if chk.replay_case:
        rc = chk.replay_case
        os.environ["VERIF_SEED"] = str(rc["seed"])
        r = run_cell(rc["seed"], rc["tier"], rc["case"]["n"], chk.scratch)
        print({k: r[k] for k in ("n", "label", "state", "pcls", "bounds", "margins") if k in r})
        for key, what in r["problems"]:
            print("PROBLEM", key, "—", what)
        raise SystemExit(1 if r["problems"] else 0)
    C, cells = build_cells(chk.tier)
    ids = [c["n"] for c in cells]
    if chk.args.only:
        ids = [c["n"] for c in cells if chk.args.only in (C[c["cfg"]]["label"] if "cfg" in c else "elementary:" + elementary_cells()[c["elem"]][0])]
    # interleave so that every worker sees a mix of cheap and expensive cells
    chunk = 6 if chk.quick else 24
    ngroups = max(1, (len(ids) + chunk - 1) // chunk)
    groups = [ids[i::ngroups] for i in range(ngroups)]
    cases = [dict(ids=g, seed=chk.seed, tier=chk.tier, scratch=chk.scratch) for g in groups if g]
    res = run_cases(cases, "checks.c07:worker", chk.scratch, nproc=chk.args.nproc, timeout=600)
    worst, offsets, closest, fd_excl, labels_seen, excluded_regions, dyn_not_reached = {}, {}, 1.0, {}, set(), 0, set()
    per_key = {}
    for c, r in zip(cases, res):
        if not isinstance(r, dict) or "results" not in r:
            chk.note_inconclusive(str(r)[:300])
            chk.evaluations += len(c["ids"])
            continue
        for x in r["results"]:
            if x.get("harness_error"):
                chk.note_inconclusive(f"cell #{x['n']}: {x['harness_error'][:400]}")
                chk.evaluations += 1
                continue
            if x.get("not_reached"):
                dyn_not_reached.add(x["not_reached"])
                chk.case_done(ident=(x["label"], x["state"], x["pcls"]), nontrivial=False)
                continue
            chk.merge_counters(x["counts"])
            labels_seen.add(x["label"])
            for k, v in x["margins"].items():
                worst[k] = max(worst.get(k, 0.0), v if np.isfinite(v) else 1e300)
            for k, v in x["offsets"].items():
                if abs(v) > 1e-6:
                    offsets.setdefault(k.split("[")[0], set()).add(round(float(v), 4))
            for k, v in (x.get("fd_excluded") or {}).items():
                fd_excl[k] = fd_excl.get(k, 0) + int(v)
            if "closest" in x:
                closest = min(closest, x["closest"])
            if x.get("excluded"):
                excluded_regions += 1
            sample = None
            if x["n"] % 97 == 0:
                sample = {k: x[k] for k in ("n", "label", "state", "pcls", "bounds", "ratio", "edges", "margins") if k in x}
            chk.case_done(ident=(x["label"], x["state"], x["pcls"]), nontrivial=bool(x["nontrivial"]), sample=sample)
            for key, what in x["problems"]:
                per_key[key] = per_key.get(key, 0) + 1
                if per_key[key] <= 3:  # three replayable witnesses per mechanism and run; the rest is counted
                    chk.violation(key, f"cell #{x['n']}: {what}", dict(n=x["n"]))
    names = sorted({str(c["name"]) for c in C if c["level"] != "proposal"} | {p[0] for c in C if c["level"] == "combined" for p in c["parts"]})
    chk.extra["not_reached"] = NOT_REACHED + sorted(dyn_not_reached)
    chk.extra["excluded_by_precondition"] = dict(EXCLUDED, **{"finite-difference exclusions (points)": fd_excl,
                                                             "cells with post-update clouds restricted to the updated range": excluded_regions})
    chk.extra["worst_margin"] = {k: float(f"{v:.3g}") for k, v in sorted(worst.items())}
    # reported minus numerical log-Jacobian, constant over each batch (allowed by the property): e.g. log 2 for scale-2 angles, log pi for
    # to-cartesian, log(2 pi / range) for periodic; "varies with bounds" when the constant depends on the random box
    chk.extra["constant_offsets_observed"] = {k: (sorted(v) if len(v) <= 4 else f"varies with bounds: {min(v)} .. {max(v)} ({len(v)} values)")
                                              for k, v in sorted(offsets.items())}
    chk.extra["witness_cells_per_key"] = dict(sorted(per_key.items()))
    chk.extra["registered_names_covered"] = names
    chk.extra["configurations"] = len(labels_seen)
    chk.extra["elementary_closest_relative_distance_to_singularity"] = closest
    chk.assumptions.append("prime priors are compared with the original prior each class documents: uniform box, d**power, uniform|sine angle with chi(2) radius "
                           "(also when the user supplies the radial parameter), isotropic angles with chi(3) radius")
    chk.finish("cells = every key of default_reparameterisations and of the GW set (minus astropy-only converter) x option grid (rescale bounds, offset, update on/off, "
               "inversion split/duplicate x lower/upper/none/detected, compute_radius, pre/post rescalings, angle scales/priors, radial on/off, conventions, parameter "
               "order, scale/shift fixed/estimated, power-law powers, delta-phase with requirements) + FlowProposal/GWFlowProposal configurations (strings, dicts, regex, "
               "fallbacks, reverse order, extra INS fields, 15-parameter GW set) + elementary maps in longdouble; x state (before / after update on a random sub-cloud) x "
               "point class (interior, log-spaced approach to each bound down to 1e-12 of the range, exact bounds where finite, mixed); random finite boxes with ranges "
               "1e-6..1e6 and offsets up to 1e3 ranges. A cell is non-trivial when the round-trip monitor compared points (all cells) — the true-Jacobian monitor "
               "additionally needs >= 8 points clear of kinks; distinct by (configuration, state, point class).",
               require_observed=["round_trip_points", "pairing_points", "true_jacobian_points", "prime_prior_points", "prime_prior_support_points",
                                 "non_sampling_comparisons", "updates", "elementary_true_jacobian_points", "verify_rescaling_calls"])


if __name__ == "__main__":
    main()
