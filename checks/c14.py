"""C14 — seeded runs are reproducible and independent of parallelisation settings (byte digests across processes / pools)."""
import json
import os
import subprocess

from vlib.common import Check, assert_repo, rng_for, ROOT

CONFIGS = [
    ("std-default", "std", {}),
    ("std-maf-nlive50", "std", {"nlive": 50, "flow_config": {"ftype": "maf"}}),
    ("std-logit-nball", "std", {"reparameterisations": {"x0": "logit", "x1": "logit"}, "latent_prior": "uniform_nball"}),
    ("std-analytic-uninformed50", "std", {"analytic_priors": True, "maximum_uninformed": 50}),
    ("std-training-options-inside-flow-config", "std", {"nlive": 50, "flow_config": {"max_epochs": 12, "patience": 4, "lr": 0.002}, "training_config": None}),
    ("ins-default", "ins", {}),
    ("ins-strict-variable", "ins", {"strict_threshold": True, "draw_constant": False}),
    ("std-seed-0", "std", {"seed": 0, "nlive": 50}),     # boundary value of the seed: 0 is a seed, not "no seed"
    ("ins-seed-0", "ins", {"seed": 0}),
    ("std-nsf-inversion", "std", {"flow_config": {"ftype": "nsf"}, "reparameterisations": {"x0": "inversion", "x1": "default"}, "max_iteration": 400}),
    ("std-augmented", "std", {"flow_proposal_class": "AugmentedFlowProposal", "marginalise_augment": True, "n_marg": 5, "max_iteration": 400}),
    ("std-no-constant-volume", "std", {"constant_volume_mode": False, "nlive": 60}),
    ("ins-noreparam", "ins", {"reparameterisation": None, "max_iteration": 6}),
    ("ins-replace-all", "ins", {"replace_all": True}),
    ("ins-no-iid-quantile", "ins", {"draw_iid_live": False, "threshold_method": "quantile"}),
]
VARIANTS = [
    ("baseline", {}),
    ("other-process-other-hashseed", {"hashseed": "12345"}),
    ("hashseed-1", {"hashseed": "1"}),
    ("hashseed-2", {"hashseed": "2"}),
    ("hashseed-random", {"hashseed": "random"}),
    ("twice-in-one-process", {"twice": True}),
    ("twice-in-one-process-same-model-object", {"twice": True, "same_model": True}),
    ("twice-in-one-process-same-settings-objects", {"twice": True, "same_kwargs": True}),
    ("n_pool-1", {"n_pool": 1}),
    ("n_pool-2", {"n_pool": 2, "delay_us": 300}),
    ("n_pool-3", {"n_pool": 3}),
    ("n_pool-4", {"n_pool": 4, "delay_us": 1500}),
    ("user-pool-2", {"user_pool": 2}),
    ("chunksize-1", {"likelihood_chunksize": 1}),
    ("chunksize-7", {"likelihood_chunksize": 7}),
    ("chunksize-huge", {"likelihood_chunksize": 100000}),
    ("parallel-prior", {"n_pool": 2, "parallelise_prior": True}),
    # disable_vectorisation is deliberately NOT a variant: it is not one of the parallelisation settings the property lists, and it legitimately changes
    # the random stream (the vectorisation probe draws 10 points from the global generator only when vectorisation is allowed).
    ("pool-chunks", {"n_pool": 3, "likelihood_chunksize": 5, "delay_us": 500}),
]


def worker(case):
    assert_repo()
    env = dict(os.environ)
    env["PYTHONHASHSEED"] = case["variant"].get("hashseed", "0")
    env["PYTHONPATH"] = os.environ.get("PYTHONPATH", "")
    cfg = dict(sampler=case["sampler"], kwargs=case["kwargs"], variant=case["variant"])
    try:
        p = subprocess.run(["/venv/bin/python", "-m", "vlib.repro_run", json.dumps(cfg), case["outdir"]], capture_output=True, text=True, timeout=case["timeout"],
                           env=env, cwd=ROOT)
    except subprocess.TimeoutExpired:
        return dict(timeout=True)
    for line in p.stdout.splitlines():
        if line.startswith("RESULT "):
            return dict(runs=json.loads(line[7:]))
    return dict(failed=p.returncode, stderr=p.stderr[-1500:])


def main():
    chk = Check("C14", "exploration")
    assert_repo()
    from vlib.farm import run_cases

    nconf = 9 if chk.quick else len(CONFIGS)
    quick_names = ["baseline", "other-process-other-hashseed", "hashseed-1", "hashseed-2", "hashseed-random", "twice-in-one-process", "twice-in-one-process-same-model-object", "twice-in-one-process-same-settings-objects",
                   "n_pool-2", "n_pool-4", "user-pool-2", "chunksize-7", "parallel-prior", "pool-chunks"]
    variants = [v for v in VARIANTS if v[0] in quick_names] if chk.quick else VARIANTS
    seeds = [0] if chk.quick else [0, 1, 2]
    cases = []
    for si in seeds:
        for name, sampler, kw in CONFIGS[:nconf]:
            seed = int(rng_for(chk.seed, "C14", name, si).integers(1, 2**31 - 1))
            for vn, v in variants:
                k = dict(kw)
                k.setdefault("seed", seed)
                cases.append(dict(config=name, sampler=sampler, kwargs=k, vname=vn, variant=v, outdir=os.path.join(chk.scratch, f"{name}-{si}-{vn}"), timeout=400, _timeout=450, si=si))
    if chk.replay_case:
        c = chk.replay_case["case"]
        grp = [x for x in cases if x["config"] == c["config"] and x["si"] == c.get("si", 0) and x["vname"] in ("baseline", c["vname"])]
        for x in grp:
            print(x["vname"], worker(x))
        return
    res = run_cases(cases, "checks.c14:worker", chk.scratch, nproc=chk.args.nproc, timeout=450)
    base = {}
    for c, r in zip(cases, res):
        if c["vname"] == "baseline" and r.get("runs"):
            base[(c["config"], c["si"])] = r["runs"][0]
    for c, r in zip(cases, res):
        small = {k: c[k] for k in ("config", "sampler", "kwargs", "vname", "variant", "si")}
        if not r.get("runs"):
            if "failed" in r and c["vname"] != "baseline" and base.get((c["config"], c["si"])) is not None:
                # the baseline of this configuration completed and the variant's process ended with an error: the variant did change the outcome
                last = [ln for ln in str(r.get("stderr", "")).strip().splitlines() if ln.strip()][-1:] or ["?"]
                chk.count("variants_that_failed_although_the_baseline_completed")
                chk.violation(f"C14:{c['sampler']}:{c['vname']}:run-fails-although-the-baseline-completes",
                              f"{c['config']} seed={c['kwargs']['seed']} variant {c['vname']}: process exit {r['failed']}: {last[0][:300]}", small)
                chk.case_done(ident=(c["config"], c["si"], c["vname"]), nontrivial=True)
                continue
            chk.note_inconclusive(f"{c['config']}/{c['vname']}: {str(r)[:500]}")
            chk.case_done()
            continue
        b = base.get((c["config"], c["si"]))
        if b is None:
            chk.note_inconclusive(f"{c['config']}: baseline missing")
            chk.case_done()
            continue
        for i, run in enumerate(r["runs"]):
            chk.count("digests_compared")
            chk.count("digests_compared_" + ("baseline" if c["vname"] == "baseline" else "hashseed" if "hashseed" in c["vname"] else "twice" if "twice" in c["vname"] else
                                              "chunksize" if c["vname"].startswith("chunksize") else "pool"))
            if (c["variant"].get("n_pool", 0) >= 2 or c["variant"].get("user_pool")) and run["user_points"] < run["evals"]:
                # the user-boundary counter lives in the main process: fewer points seen there than nessai counted means the workers really evaluated the rest
                chk.count("pool_variants_with_evaluations_outside_the_main_process")
            chk.count("monitored_iterations", run["iterations"])
            if run["digest"] != b["digest"] or run["evals"] != b["evals"] or run["logZ"] != b["logZ"]:
                chk.violation(f"C14:{c['sampler']}:{c['vname']}:digest-differs-from-baseline",
                              f"{c['config']} seed={c['kwargs']['seed']} variant {c['vname']} run {i}: digest {run['digest'][:12]} vs {b['digest'][:12]}, evals {run['evals']} vs {b['evals']}, "
                              f"logZ {run['logZ']} vs {b['logZ']}, n {run['n']} vs {b['n']}, first rows {run['head'][:2]} vs {b['head'][:2]}", small)
        chk.case_done(ident=(c["config"], c["si"], c["vname"]), nontrivial=c["vname"] != "baseline" and r["runs"][0]["iterations"] > 0,
                      sample=dict(config=small, digest=r["runs"][0]["digest"][:16], evals=r["runs"][0]["evals"], iterations=r["runs"][0]["iterations"],
                                  user_calls=r["runs"][0]["user_calls"]) if c["config"] == "std-default" and c["vname"] in ("baseline", "n_pool-4") else None)
    chk.assumptions += ["torch CPU determinism with pytorch_threads=1 (nessai's default); multi-thread torch is outside the claim", "fork start method",
                        "likelihood built from exactly rounded operations (Ex2) so vectorised == pointwise bit for bit"]
    chk.finish("each configuration is run in separate processes: baseline, another process with a different PYTHONHASHSEED, twice in one process, n_pool 1-4 (with "
               "content-keyed delays in the workers), a user-supplied fork pool, chunk sizes 1/7/huge, parallel prior, vectorisation disabled; SHA-256 over nested samples, "
               "posterior weights, repr(logZ), insertion indices plus the evaluation counter must equal the baseline's. Non-trivial = non-baseline variant that completed; "
               "distinct by (configuration, seed, variant).", require_observed=["digests_compared", "digests_compared_hashseed", "digests_compared_twice", "digests_compared_chunksize", "digests_compared_pool",
                                 "pool_variants_with_evaluations_outside_the_main_process"])


if __name__ == "__main__":
    main()
