"""C11 — a process kill during checkpointing never leaves the run unresumable (fault enumeration with real process deaths).

A driver process runs a real sampler; at a chosen checkpoint write and at a chosen flow-weights save it forks one child per crash point (before/after each audited
file-system operation, and after each of a set of byte prefixes of the serialised data); the child performs the real operation and dies there with os._exit.  Every
snapshot of the output directory is then resumed by a fresh process under the C12 digest monitor and the C01/C03/C05 monitors.
"""
import json
import os
import shutil
import subprocess

from vlib.common import Check, assert_repo, rng_for, ROOT

DRIVERS = [
    # name, sampler, model, kwargs, target_ckpt, target_train
    ("std-early-checkpoint", "std", "G2u", {"nlive": 50, "checkpoint_interval": 40}, 1, 0),
    ("std-late-checkpoint-and-weights", "std", "G2u", {"nlive": 50, "checkpoint_interval": 40}, 3, 3),
    ("ins-late-keep-old", "ins", "G2u", {"save_existing_checkpoint": True, "save_log_q": True, "checkpoint_interval": 1, "tolerance": -100.0, "max_iteration": 6}, 3, 4),
    ("ins-late-overwrite", "ins", "G2u", {"save_existing_checkpoint": False, "save_log_q": False, "checkpoint_interval": 1, "tolerance": -100.0, "max_iteration": 6}, 3, 0),
    ("ins-early", "ins", "G2n", {"save_existing_checkpoint": False, "checkpoint_interval": 1, "tolerance": -100.0, "max_iteration": 5}, 1, 2),
    ("std-augmented-late", "std", "G2u", {"nlive": 50, "checkpoint_interval": 40, "flow_proposal_class": "AugmentedFlowProposal", "marginalise_augment": True, "n_marg": 5}, 3, 2),
    ("std-analytic-nonuniform-late", "std", "G2n", {"nlive": 50, "checkpoint_interval": 30, "analytic_priors": True, "flow_config": {"ftype": "maf"}}, 4, 3),
    ("std-gw-late", "std", "GW5", {"nlive": 60, "checkpoint_interval": 40, "flow_proposal_class": "GWFlowProposal"}, 3, 2),
]
QUICK = ["std-early-checkpoint", "std-late-checkpoint-and-weights", "ins-late-keep-old", "ins-early", "ins-late-overwrite"]


def driver_worker(case):
    assert_repo()
    cfg = dict(sampler=case["sampler"], model=case["model"], kwargs=case["kwargs"], workdir=case["workdir"], logdir=os.path.join(case["workdir"], "digests"),
               target_ckpt=case["target_ckpt"], target_train=case["target_train"], prefixes=case["prefixes"])
    try:
        p = subprocess.run(["/venv/bin/python", "-m", "vlib.crash_driver", json.dumps(cfg)], capture_output=True, text=True, timeout=case["timeout"], cwd=ROOT)
    except subprocess.TimeoutExpired:
        return dict(timeout=True)
    mp = os.path.join(case["workdir"], "meta.json")
    if not os.path.exists(mp):
        return dict(failed=p.returncode, stderr=p.stderr[-2000:])
    return dict(meta=json.load(open(mp)), rc=p.returncode)


def verify_worker(case):
    """Fresh process resumes from one snapshot restored at the original (relative) path inside a private working directory."""
    assert_repo()
    wd = case["verify_dir"]
    shutil.rmtree(wd, ignore_errors=True)
    os.makedirs(wd)
    shutil.copytree(case["snapshot"], os.path.join(wd, "run"))
    logdir = os.path.join(wd, "log")
    cfg = dict(sampler=case["sampler"], model=case["model"], kwargs=case["kwargs"], outdir="run", cwd=wd, logdir=logdir, digest_dir=case["digest_dir"], seg=0, kill_at=0,
               stop_after_resume_iterations=case["stop_after"], seq_offset=1000)
    try:
        p = subprocess.run(["/venv/bin/python", "-m", "vlib.segment_run", json.dumps(cfg)], capture_output=True, text=True, timeout=case["timeout"], cwd=ROOT)
        rc = p.returncode
        err = p.stderr[-800:]
    except subprocess.TimeoutExpired:
        rc, err = "timeout", ""
    evs = []
    lf = os.path.join(logdir, "seg0.jsonl")
    if os.path.exists(lf):
        for line in open(lf):
            try:
                evs.append(json.loads(line))
            except json.JSONDecodeError:
                pass
    files = sorted(os.path.relpath(os.path.join(dp, f), case["snapshot"]) + ":" + str(os.path.getsize(os.path.join(dp, f)))
                   for dp, _, fs in os.walk(case["snapshot"]) for f in fs if "resume" in f or f.endswith(("model.pt", "model.pt.old")))
    shutil.rmtree(wd, ignore_errors=True)
    return dict(rc=rc, events=[e for e in evs if e["ev"] != "ckpt"], stderr=err, files=files[:12])


def strace_kill_worker(case):
    """A fully real kill: the whole run executes under strace, which delivers SIGKILL at the K-th write()/writev() to the flow weights file (torch.save's C++ zip
    writer is invisible to Python-level hooks).  The directory left behind is then resumed by a fresh process like every other snapshot."""
    assert_repo()
    wd = case["workdir"]
    shutil.rmtree(wd, ignore_errors=True)
    os.makedirs(wd)
    logdir = os.path.join(wd, "log")
    cfg = dict(sampler="std", model=case["model"], kwargs=case["kwargs"], outdir="run", cwd=wd, logdir=logdir, seg=0, kill_at=0)
    target = os.path.join(wd, "run", "proposal", "model.pt")
    env = dict(os.environ)
    try:
        p = subprocess.run(["strace", "-f", "-o", os.path.join(wd, "trace.txt"), "-P", target, "-e", "trace=write,writev",
                            "-e", f"inject=write,writev:signal=KILL:when={case['K']}", "/venv/bin/python", "-m", "vlib.segment_run", json.dumps(cfg)],
                           capture_output=True, text=True, timeout=case["timeout"], cwd=ROOT, env=env)
        rc = p.returncode
    except subprocess.TimeoutExpired:
        return dict(timeout=True)
    killed = rc in (-9, 137)
    size = os.path.getsize(target) if os.path.exists(target) else None
    old = os.path.getsize(target + ".old") if os.path.exists(target + ".old") else None
    had_ckpt = os.path.exists(os.path.join(wd, "run", "nested_sampler_resume.pkl"))
    last_seq = int(open(os.path.join(logdir, "seq")).read()) if os.path.exists(os.path.join(logdir, "seq")) else None
    if not killed:
        shutil.rmtree(wd, ignore_errors=True)
        return dict(killed=False, rc=rc)
    # resume in a fresh process
    cfg2 = dict(cfg, seg=1, stop_after_resume_iterations=case["stop_after"], seq_offset=1000, digest_dir=logdir)
    try:
        p2 = subprocess.run(["/venv/bin/python", "-m", "vlib.segment_run", json.dumps(cfg2)], capture_output=True, text=True, timeout=case["timeout"], cwd=ROOT)
        rc2, err = p2.returncode, p2.stderr[-600:]
    except subprocess.TimeoutExpired:
        rc2, err = "timeout", ""
    evs = []
    lf = os.path.join(logdir, "seg1.jsonl")
    if os.path.exists(lf):
        for line in open(lf):
            try:
                evs.append(json.loads(line))
            except json.JSONDecodeError:
                pass
    shutil.rmtree(wd, ignore_errors=True)
    return dict(killed=True, rc=rc2, events=[e for e in evs if e["ev"] != "ckpt"], stderr=err, weights_bytes=size, old_weights_bytes=old, had_checkpoint=had_ckpt, last_seq=last_seq,
                files=[f"model.pt:{size}", f"model.pt.old:{old}"])


def crash_class(m):
    """Mechanism-level name of the crash point (no byte counts, no event indices)."""
    what = m["info"]["what"]
    if m["kind"] == "before_event":
        if m["event"] is None:
            return f"{what}:after-last-operation"
        e, f, mode = m["event"]
        f = os.path.basename(f)
        f = "resume-file" + f[len("nested_sampler_resume.pkl"):] if f.startswith("nested_sampler_resume.pkl") else f
        return f"{what}:before-{e}({f})"
    if m["kind"] == "after_event":
        e, f, mode = m["event"]
        f = os.path.basename(f)
        f = "resume-file" + f[len("nested_sampler_resume.pkl"):] if f.startswith("nested_sampler_resume.pkl") else f
        return f"{what}:after-{e}({f})"
    if m["kind"] == "prefix":
        return f"{what}:torn-temp-file"
    return f"{what}:torn-weights-file"


def judge(m, r):
    """Oracle for one resumed snapshot.  Returns list of (key, detail)."""
    info = m["info"]
    cc = crash_class(m)
    out = []
    evs = {e["ev"]: e for e in r["events"]}
    if r["rc"] == "timeout":
        return [("inconclusive", "verifier timed out")]
    if "error" in evs or r["rc"] != 0:
        e = evs.get("error", {})
        tb = e.get("traceback", "")
        raised_in_resume = "resume" in tb and "nested_sampling_loop" not in tb
        return [(f"{cc}:{'resume-raises' if raised_in_resume else 'continued-run-raises'}", dict(error=(e.get("error") or r["stderr"])[:200], files=r["files"]))]
    st = evs.get("start")
    if st is None:
        return [(f"{cc}:no-start-event", r["stderr"][-200:])]
    if info["what"] == "checkpoint":
        allowed = {info["new_seq"]}
        if info["prev_seq"] is not None and info["prev_exists"]:
            allowed.add(info["prev_seq"])
        if st["resumed"]:
            if st["loaded_seq"] not in allowed:
                out.append((f"{cc}:loaded-state-is-neither-previous-nor-new-checkpoint", dict(loaded=st["loaded_seq"], allowed=sorted(allowed))))
        elif info["prev_exists"]:
            out.append((f"{cc}:started-afresh-although-a-checkpoint-had-completed", dict(files=r["files"])))
    else:
        if not st["resumed"]:
            out.append((f"{cc}:started-afresh-although-a-checkpoint-had-completed", dict(files=r["files"])))
        elif st["loaded_seq"] != info["last_seq"]:
            out.append((f"{cc}:loaded-unexpected-checkpoint", dict(loaded=st["loaded_seq"], expected=info["last_seq"])))
    rs = evs.get("restore")
    if st["resumed"]:
        if rs is None:
            out.append((f"{cc}:restored-state-never-compared", ""))
        elif rs.get("n_diffs"):
            out.append((f"{cc}:restored-state-is-torn", rs["diffs"][:3]))
    dn = evs.get("done")
    if dn is None:
        out.append((f"{cc}:run-did-not-continue", r["stderr"][-200:]))
    else:
        for prop, key, detail in dn.get("problems", []):
            out.append((f"{cc}:continued-run-breaks-invariant:{prop}:{key}", detail))
        if st["resumed"] and dn["it"] <= st["it"] and not dn["finalised"]:
            out.append((f"{cc}:sampling-did-not-advance", dict(start=st["it"], end=dn["it"])))
    return out


def main():
    chk = Check("C11", "fault_enumeration")
    assert_repo()
    from vlib.farm import run_cases

    names = QUICK if chk.quick else [d[0] for d in DRIVERS]
    dcases = []
    for d in DRIVERS:
        if d[0] not in names:
            continue
        name, sampler, model, kw, tc, tt = d
        kw = dict(kw, checkpointing=True, checkpoint_on_iteration=True, seed=int(rng_for(chk.seed, "C11", name).integers(1, 2**31 - 1)))
        dcases.append(dict(name=name, sampler=sampler, model=model, kwargs=kw, target_ckpt=tc, target_train=tt, prefixes=5 if chk.quick else 40,
                           workdir=os.path.join(chk.scratch, "drv-" + name), timeout=900, _timeout=950))
    if chk.replay_case:
        want = chk.replay_case["case"]
        dcases = [c for c in dcases if c["name"] == want["driver"]]
    import time as _t
    t0 = _t.time()
    dres = run_cases(dcases, "checks.c11:driver_worker", chk.scratch, nproc=chk.args.nproc, timeout=950)
    chk.extra["driver_phase_s"] = round(_t.time() - t0, 1)
    vcases = []
    for c, r in zip(dcases, dres):
        if "meta" not in r:
            chk.note_inconclusive(f"driver {c['name']}: {str(r)[:500]}")
            chk.case_done()
            continue
        infos = [m["info"] for m in r["meta"]["meta"] if "name" not in m]
        chk.count("drivers_completed")
        for m in r["meta"]["meta"]:
            if "name" not in m:
                continue
            if chk.replay_case and crash_class(m) != chk.replay_case["case"]["crash"]:
                continue
            vcases.append(dict(driver=c["name"], sampler=c["sampler"], model=c["model"], kwargs=c["kwargs"], snapshot=os.path.join(r["meta"]["snap"], m["name"]),
                               digest_dir=os.path.join(c["workdir"], "digests"), verify_dir=os.path.join(chk.scratch, "ver", c["name"], m["name"]),
                               stop_after=(2 if c["sampler"] == "ins" else 50) if chk.quick else (None if c["sampler"] == "ins" else 100000), timeout=600, _timeout=650, m=m))
    if chk.counters.get("drivers_completed", 0) < len(dcases):
        chk.max_inconclusive = 0    # a driver that did not complete takes all of its crash points with it: never folded into "a few undecided cases"
    t0 = _t.time()
    vres = run_cases(vcases, "checks.c11:verify_worker", chk.scratch, nproc=chk.args.nproc, timeout=650)
    chk.extra["verify_phase_s"] = round(_t.time() - t0, 1)
    classes = {}
    for c, r in zip(vcases, vres):
        m = c["m"]
        cc = crash_class(m)
        small = dict(driver=c["driver"], crash=cc)
        if "events" not in r:
            chk.note_inconclusive(f"verify {c['driver']}/{m['name']}: {str(r)[:300]}")
            chk.case_done()
            continue
        if m["child_exit"] != 137 and m["kind"] != "before_event":
            chk.note_inconclusive(f"{c['driver']}/{m['name']}: crash point never reached (child exit {m['child_exit']})")
            chk.case_done()
            continue
        verdicts = judge(m, r)
        chk.count("crash_points_resumed")
        chk.count("crash_points_" + m["info"]["what"])
        chk.count("crash_kind_" + m["kind"])
        evs = {e["ev"]: e for e in r["events"]}
        outcome = "fresh-start" if evs.get("start") and not evs["start"]["resumed"] else f"resumed-seq-{evs.get('start', {}).get('loaded_seq')}"
        classes.setdefault(f"{c['driver']}|{cc}", set()).add(outcome if not verdicts else "FAIL")
        chk.case_done(ident=(c["driver"], m["name"]), nontrivial=True,
                      sample=dict(driver=c["driver"], crash_point=m["name"], crash_class=cc, child_exit=m["child_exit"], files_left=r["files"], outcome=outcome,
                                  resumed_iteration=evs.get("start", {}).get("it"), continued_to=evs.get("done", {}).get("it"))
                      if m["kind"] in ("prefix", "torch_prefix") and len(chk.samples) < 4 else None)
        for key, detail in verdicts:
            if key == "inconclusive":
                chk.note_inconclusive(f"{c['driver']}/{m['name']}: {detail}")
                continue
            chk.violation("C11:" + key, f"driver {c['driver']} crash point {m['name']} (child exit {m['child_exit']}): {detail}", small)
    # ---- thorough: fully real kills of the weights save with strace-injected SIGKILL (validates the sequential-prefix model of torch.save)
    if not chk.quick and not chk.replay_case:
        sk = [dict(model="G2u", kwargs=dict(nlive=50, checkpointing=True, checkpoint_on_iteration=True, checkpoint_interval=40, seed=int(rng_for(chk.seed, "C11strace", K).integers(1, 2**31 - 1))),
                   K=K, workdir=os.path.join(chk.scratch, f"strace-{K}"), stop_after=50, timeout=600, _timeout=1300) for K in range(1, 16)]
        sres = run_cases(sk, "checks.c11:strace_kill_worker", chk.scratch, nproc=chk.args.nproc, timeout=1300)
        sizes = set()
        for c, r in zip(sk, sres):
            if r.get("timeout") or "killed" not in r:
                chk.note_inconclusive(f"strace kill K={c['K']}: {str(r)[:300]}")
                chk.case_done()
                continue
            if not r["killed"]:
                chk.count("strace_kill_points_beyond_last_write")
                chk.case_done()
                continue
            chk.count("strace_real_kills_resumed")
            sizes.add(r["weights_bytes"])
            m = dict(info=dict(what="weights", last_seq=r["last_seq"], prev_exists=r["had_checkpoint"], new_seq=r["last_seq"], prev_seq=None), kind="torch_prefix", event=None)
            if not r["had_checkpoint"]:
                m["info"] = dict(what="checkpoint", prev_exists=False, prev_seq=None, new_seq=-1)   # killed before any checkpoint: a fresh start is the documented outcome
                m["kind"] = "prefix"
            verdicts = judge(m, r)
            chk.case_done(ident=("strace", c["K"]), nontrivial=True,
                          sample=dict(strace_kill_at_write=c["K"], weights_file_bytes_left=r["weights_bytes"], old_weights_bytes=r["old_weights_bytes"], checkpoint_existed=r["had_checkpoint"],
                                      outcome=[e for e in r["events"] if e["ev"] in ("start",)][:1]) if c["K"] in (5, 8) else None)
            for key, detail in verdicts:
                if key == "inconclusive":
                    chk.note_inconclusive(f"strace K={c['K']}: {detail}")
                    continue
                chk.violation("C11:strace-real-kill:" + key, f"SIGKILL injected by strace at write #{c['K']} to model.pt (bytes left {r['weights_bytes']}): {detail}", dict(driver="strace", crash=str(c["K"])))
        chk.extra["strace_weights_file_sizes_left"] = sorted(s for s in sizes if s is not None)
    chk.extra["crash_classes_and_outcomes"] = {k: sorted(v) for k, v in sorted(classes.items())}
    chk.extra["exhaustive"] = True
    chk.extra["exhaustive_scope"] = ("every audited file-system operation boundary of the targeted checkpoint write and weights save is a crash point (enumerated from a recording pass); "
                                     "byte prefixes of the serialised data are sampled (0, 1, 2, powers of two, quarter, half, size-1)")
    chk.assumptions += ["process death leaves exactly the bytes flushed so far (power loss / unsynced renames are outside the property)",
                        "torch.save writes the weights file sequentially (prefix model); validated separately with strace-injected SIGKILL in the design phase"]
    chk.finish("fault enumeration: for each driver (sampler x early/late checkpoint x weights save) every operation boundary and a set of byte prefixes is a crash point, produced by "
               "a forked child that really dies there; each resulting directory is resumed by a fresh process which must load the previous or the new checkpoint (digest-equal, "
               "never torn), continue sampling (>= 50 iterations quick, to completion thorough) under the C01/C03/C05 monitors, or start afresh if no checkpoint had completed. "
               "Every crash point is non-trivial; distinct by (driver, crash point).",
               require_observed=["crash_points_resumed", "crash_points_checkpoint", "crash_points_weights", "crash_kind_prefix", "crash_kind_torch_prefix", "crash_kind_before_event", "crash_kind_after_event"])


if __name__ == "__main__":
    main()
