"""C13 — a termination signal at any instant leaves a consistent, resumable state (schedule enumeration at line granularity).

A trace hook invokes the real handler FlowSampler.safe_exit(signum, frame) *before* a chosen source line of the sampling loop — exactly where CPython would
run a Python-level signal handler — at several phases of the run; the SystemExit is taken, then a fresh FlowSampler(resume=True) finishes the run under the
C01/C03/C05 monitors.  Further cases deliver real signals (os.kill, setitimer) to child processes running with nessai's own registered handlers, at chosen points, at the n-th nessai
function entry and after wall-clock delays; the process exit status is observed and the checkpoint left is resumed under the same oracles.
"""
import inspect
import json
import os
import shutil
import signal
import subprocess
import sys

import numpy as np

from vlib.common import Check, assert_repo, rng_for, ROOT

STD_KW = dict(nlive=50, maximum_uninformed=60, checkpointing=True, checkpoint_on_iteration=True, checkpoint_interval=10**7)
INS_KW = dict(nlive=200, min_samples=50, checkpointing=True, checkpoint_on_iteration=True, checkpoint_interval=1, max_iteration=6, tolerance=-100.0)


def target_functions():
    from nessai.samplers import nestedsampler as nsmod, importancesampler as insmod
    from nessai.proposal import flowproposal as fpmod, rejection as rjmod, analytic as anmod, importance as ipmod
    from nessai import evidence as evmod

    NS, INS, OS = nsmod.NestedSampler, insmod.ImportanceNestedSampler, insmod.OrderedSamples
    std = {
        "consume_sample": NS.consume_sample, "yield_sample": NS.yield_sample, "insert_live_point": NS.insert_live_point, "update_state": NS.update_state,
        "check_state": NS.check_state, "check_proposal_switch": NS.check_proposal_switch, "check_training": NS.check_training, "train_proposal": NS.train_proposal,
        "nested_sampling_loop": NS.nested_sampling_loop, "finalise": NS.finalise, "fp_draw": fpmod.FlowProposal.draw, "fp_populate": fpmod.FlowProposal.populate,
        "fp_train": fpmod.FlowProposal.train, "an_draw": anmod.AnalyticProposal.draw, "rj_populate": rjmod.RejectionProposal.populate,
        "increment": evmod._NSIntegralState.increment,
        # before the first iteration: the initial live set is drawn inside the sampling loop's initialisation
        "populate_live_points": NS.populate_live_points, "initialise": NS.initialise,
        # periodic diagnostics (plot=True is nessai's default): a signal while the state / trace plots are produced
        "plot_state": NS.plot_state, "plot_trace": NS.plot_trace,
    }
    ins = {
        "ins_loop": INS.nested_sampling_loop, "add_and_update_points": INS.add_and_update_points, "ins_remove_samples": INS.remove_samples,
        "add_new_proposal": INS.add_new_proposal, "add_new_proposal_weight": INS.add_new_proposal_weight, "os_add_samples": OS.add_samples,
        "os_remove_samples": OS.remove_samples, "os_add_to_nested": OS.add_to_nested_samples, "ifp_draw": ipmod.ImportanceFlowProposal.draw,
        "ifp_train": ipmod.ImportanceFlowProposal.train, "ins_update_evidence": INS.update_evidence, "ins_finalise": INS.finalise,
        "ins_populate_live_points": INS.populate_live_points, "ins_initialise": INS.initialise, "ins_plot_state": INS.plot_state,
    }
    return std, ins


def unwrap(f):
    while hasattr(f, "__wrapped__"):
        f = f.__wrapped__
    return f


def lines_of(f):
    f = unwrap(f)
    code = f.__code__
    src, start = inspect.getsourcelines(f)
    return code, start, sorted({ln for _, _, ln in code.co_lines() if ln is not None and ln > start}), src


def list_targets():
    std, ins = target_functions()
    out = []
    for sampler, funcs in (("std", std), ("ins", ins)):
        for name, f in funcs.items():
            code, start, lns, src = lines_of(f)
            for ln in lns:
                out.append(dict(sampler=sampler, func=name, rel=ln - start, stmt=src[ln - start].strip()[:70]))
    return out


def points_of(ns, names, ins=False):
    if ins:
        return None
    pts = [tuple(float(p[n]) for n in names) for p in ns.nested_samples]
    if ns.live_points is not None:
        pts += [tuple(float(p[n]) for n in names) for p in ns.live_points]
    return pts


def state_predicates(ns):
    """State predicates of the standard sampler at the instant of a signal (they decide which recorded mechanism, if any, a problem belongs to)."""
    st = ns.state
    prop = getattr(ns, "proposal", None)
    return dict(
        # an increment of the integral state is only partly applied (nlive is appended first, logLs/log_vols last), or the state
        # and the list of discarded points disagree
        integral_state_torn=bool(len(st.logLs) != len(st.log_vols) or len(st.nlive) != len(st.logLs) - 1
                                 or len(st.logLs) - 1 != len(ns.nested_samples)),
        replace_window=bool(len(ns.nested_samples) != len(ns.insertion_indices)),
        pool_flag_window=bool(prop is not None and getattr(prop, "populated", False) and not getattr(prop, "indices", [1])),
        live_is_none=ns.live_points is None,
        # the worst point is recorded but the iteration counter has not advanced yet: on the unchanged code only between two adjacent statements of
        # consume_sample itself
        iteration_not_advanced=bool(ns.live_points is not None and len(ns.nested_samples) == ns.iteration + 1),
    )


def sha(path):
    import hashlib

    return hashlib.sha256(open(path, "rb").read()).hexdigest() if os.path.exists(path) else None


def resume_and_check(case, res, snap):
    """Second half of an injection: a fresh FlowSampler(resume=True) takes the checkpoint the handler left, the restored state is compared with the snapshot taken at
    the instant of the signal (conservation of points, count identities), and the run is finished under the C01/C03/C05 monitors.  `res` needs "exit"."""
    from vlib.runs import std_kwargs, ins_kwargs, reset_globals
    from vlib import zoo
    from vlib.monitors.standard import StandardMonitors
    from vlib.monitors.ins import INSMonitors
    from vlib.monitors.results import check_standard_result, check_ins_result
    from nessai.flowsampler import FlowSampler

    ins = case["sampler"] == "ins"
    out = case["outdir"]
    rf = os.path.join(out, "nested_sampler_resume.pkl")
    kw = (ins_kwargs if ins else std_kwargs)(dict(INS_KW if ins else STD_KW, **case.get("kwargs", {})))
    names = list(zoo.make(case.get("model", "G2u")).names)
    res["snap_it"] = snap.get("it")
    res["snap_line"] = snap.get("lineno")
    res["pred"] = snap.get("pred")
    problems = []
    if res["exit"] != case.get("exit_code", 130):
        problems.append(("exit-code", res["exit"]))
    if ins and sha(rf) != snap.get("sha_before"):
        problems.append(("ins:handler-modified-iteration-boundary-checkpoint", ""))
    # ---- fresh sampler resumes and finishes
    reset_globals()
    model2 = zoo.make(case.get("model", "G2u"))
    mon = (INSMonitors if ins else StandardMonitors)(model2)
    mon.abort_props = []
    try:
        mon.arm()
        if not os.path.exists(rf) and not os.path.exists(rf + ".old"):
            res["no_checkpoint"] = True
            # only the importance sampler interrupted before its first iteration-boundary checkpoint has been written may legitimately have nothing to resume
            # from (its handler cannot checkpoint mid-iteration): i.e. no resume file existed at the instant of the signal either
            if not (ins and snap.get("sha_before") is None):
                problems.append(("handler-left-no-checkpoint", dict(sampler=case["sampler"], interrupted_at_iteration=snap.get("it"))))
        fs2 = FlowSampler(model2, output=out, resume=True, importance_nested_sampler=ins, signal_handling=False, **kw)
        ns = fs2.ns
        if ins:
            mon.min_samples = ns.min_samples
        if not ins and ns.resumed:
            lp = ns.live_points
            pts = points_of(ns, names)
            res["resume"] = dict(it=int(ns.iteration), nested=len(ns.nested_samples), state=len(ns.state.logLs) - 1, indices=len(ns.insertion_indices),
                                 live=None if lp is None else int(lp.size))
            if lp is not None and lp.size != ns.nlive:
                problems.append(("resume:live-set-size", int(lp.size)))
            if lp is not None and len({tuple(float(p[n]) for n in names) for p in lp}) != lp.size:
                problems.append(("resume:duplicated-live-point", ""))
            if len(ns.nested_samples) != len(ns.state.logLs) - 1:
                problems.append(("resume:samples-vs-integral-state", (len(ns.nested_samples), len(ns.state.logLs) - 1)))
            if len(ns.insertion_indices) != ns.iteration:
                problems.append(("resume:insertion-indices-vs-iteration", (len(ns.insertion_indices), int(ns.iteration))))
            if sorted(pts) != sorted(set(snap["pts"])) or len(pts) != len(set(pts)):
                lost = len(set(snap["pts"]) - set(pts))
                dup = len(pts) - len(set(pts))
                problems.append(("resume:points-not-conserved", dict(lost=lost, duplicated=dup)))
        elif not ins and not ns.resumed and not res.get("no_checkpoint"):
            problems.append(("resume:did-not-resume", ""))
        fs2.run(plot=False, save=False)
        ns = fs2.ns
        if ins:
            check_ins_result(fs2, model2, mon)
            a = ns.samples_unit
        else:
            mon.end_of_run(ns)
            check_standard_result(fs2, model2, mon)
            a = np.array(ns.nested_samples)
        pts = np.ascontiguousarray(np.stack([a[n] for n in names], axis=1))
        uniq = len(np.unique(pts.view([("", pts.dtype)] * pts.shape[1])))
        res["final"] = dict(it=int(ns.iteration), n=len(a), unique=uniq, sorted=bool(np.all(np.diff(a["logL"]) >= 0)), logZ=float(fs2.logZ), finalised=bool(ns.finalised))
        if uniq != len(a):
            problems.append(("final:discarded-point-recorded-twice", len(a) - uniq))
        if not res["final"]["sorted"]:
            problems.append(("final:unsorted", ""))
        if not ins:
            counts = dict(n=len(a), it=int(ns.iteration), nlive=int(ns.nlive), state=len(ns.state.logLs) - 1, indices=len(ns.insertion_indices))
            if len(a) != ns.iteration + ns.nlive:
                problems.append(("final:samples-vs-iterations-plus-nlive", counts))
            if len(ns.state.logLs) - 1 != len(a):
                problems.append(("final:integral-state-vs-samples", counts))
            if len(ns.insertion_indices) != ns.iteration:
                problems.append(("final:insertion-indices-vs-iteration", counts))
        for prop, key, detail in mon.problems:
            if prop in ("C01", "C03", "C04", "C05"):   # validity of the result; stopping-rule bookkeeping (C15) is not part of this property
                problems.append((f"final:{prop}:{key}", detail))
    except BaseException as e:
        import traceback

        tb = traceback.format_exc()
        fn = [l.split(", in ")[-1].strip() for l in tb.splitlines() if l.strip().startswith("File ") and "/nessai/" in l][-1:]
        problems.append((f"resumed-run-raises:{type(e).__name__}@{fn[0] if fn else '?'}", str(e)[:150]))
    finally:
        mon.disarm()
        try:
            model2.close_pool()
        except Exception:
            pass
        shutil.rmtree(out, ignore_errors=True)
    res["problems"] = problems
    res["monitor_counts"] = mon.counts
    return res


def inject(case):
    """One injection in this process.  Returns a result dict (never raises)."""
    assert_repo()
    from vlib.runs import std_kwargs, ins_kwargs, quiet_logging, reset_globals
    from vlib import zoo
    from vlib.monitors.standard import StandardMonitors
    from vlib.monitors.ins import INSMonitors
    from vlib.monitors.results import check_standard_result, check_ins_result
    from nessai.flowsampler import FlowSampler
    quiet_logging()
    reset_globals()
    ins = case["sampler"] == "ins"
    std, insf = target_functions()
    f = (insf if ins else std)[case["func"]]
    code, start, lns, src = lines_of(f)
    target = start + case["rel"]
    out = case["outdir"]
    shutil.rmtree(out, ignore_errors=True)
    kw = (ins_kwargs if ins else std_kwargs)(dict(INS_KW if ins else STD_KW, **case.get("kwargs", {})))
    model = zoo.make(case.get("model", "G2u"))
    names = list(model.names)
    res = dict(func=case["func"], rel=case["rel"], min_it=case["min_it"], sampler=case["sampler"], fired=False)
    fired = [False]
    snap = {}
    signum = case.get("signum", 15)
    fs = FlowSampler(model, output=out, resume=False, importance_nested_sampler=ins, exit_code=case.get("exit_code", 130), **kw)
    rf = os.path.join(out, "nested_sampler_resume.pkl")

    opcode_n = case.get("opcode")
    op_count = [0, False]   # opcodes executed in the armed call, armed?

    def tracer(frame, event, arg):
        if frame.f_code is code:
            if opcode_n is not None:
                frame.f_trace_opcodes = True
                if not fired[0] and op_count[1] is False and fs.ns.iteration >= case["min_it"]:
                    op_count[0], op_count[1] = 0, "armed"    # arm on entry of the first call at or after the phase

            def local(frame, event, arg):
                if opcode_n is not None:
                    hit = event == "opcode" and op_count[1] == "armed" and not fired[0]
                    if hit:
                        op_count[0] += 1
                        hit = op_count[0] - 1 == opcode_n
                    if event == "return" and op_count[1] == "armed" and not fired[0]:
                        op_count[1] = "done"    # the armed call ended before the n-th opcode: not reached
                else:
                    hit = event == "line" and frame.f_lineno == target and not fired[0] and fs.ns.iteration >= case["min_it"]
                if hit:
                    fired[0] = True
                    sys.settrace(None)
                    snap["lineno"] = frame.f_lineno - start
                    ns = fs.ns
                    snap["it"] = int(ns.iteration)
                    if not ins:
                        snap["pts"] = points_of(ns, names)
                        snap["pred"] = state_predicates(ns)
                    else:
                        snap["sha_before"] = sha(rf)
                        snap["n_samples"] = None if ns.training_samples.samples is None else int(len(ns.training_samples.samples))
                    fs.safe_exit(signum, frame)   # the real handler; raises SystemExit(exit_code)
                return local
            return local
        return None

    sys.settrace(tracer)
    try:
        fs.run(plot=False, save=False)
    except SystemExit as e:
        res["fired"] = True
        res["exit"] = e.code
    except BaseException as e:
        res["error_first_segment"] = f"{type(e).__name__}: {e}"[:200]
    finally:
        sys.settrace(None)
    try:
        model.close_pool()
    except Exception:
        pass
    if not res["fired"] and fired[0]:
        # the handler was invoked and raised SystemExit, yet the run went on (or ended in another exception): the exit was swallowed somewhere on the way up
        res.update(fired=True, exit=None, snap_it=snap.get("it"), snap_line=snap.get("lineno"), pred=snap.get("pred"),
                   problems=[("handler-ran-but-the-run-continued", dict(interrupted_at_iteration=snap.get("it"), run_ended_with=res.get("error_first_segment", "normal completion")))])
        shutil.rmtree(out, ignore_errors=True)
        return res
    if not res["fired"]:
        shutil.rmtree(out, ignore_errors=True)
        return res
    return resume_and_check(case, res, snap)


def multi(case):
    """A history with several interruptions: run -> signal -> resume -> signal -> ... -> resume -> finish.  Every signal is delivered before the first line of a
    function in which the state is consistent on the unchanged code (update_state / the INS loop head), so that what is observed is the *repetition* of
    interrupt-and-resume (state carried over more than one resume, random streams, counters), not the known windows of the replace step."""
    assert_repo()
    from vlib.runs import std_kwargs, ins_kwargs, quiet_logging, reset_globals
    from vlib import zoo
    from vlib.monitors.standard import StandardMonitors
    from vlib.monitors.ins import INSMonitors
    from vlib.monitors.results import check_standard_result, check_ins_result
    from nessai.flowsampler import FlowSampler

    quiet_logging()
    ins = case["sampler"] == "ins"
    std, insf = target_functions()
    code, start, lns, src = lines_of((insf if ins else std)[case["func"]])
    target = lns[0]
    out = case["outdir"]
    shutil.rmtree(out, ignore_errors=True)
    kw = (ins_kwargs if ins else std_kwargs)(dict(INS_KW if ins else STD_KW, **case.get("kwargs", {})))
    names = None
    res = dict(sampler=case["sampler"], its=case["its"], delivered=0, problems=[], segments=[])
    problems = res["problems"]
    snap = None
    rf = os.path.join(out, "nested_sampler_resume.pkl")
    try:
        for seg, it in enumerate(list(case["its"]) + [None]):
            reset_globals()
            model = zoo.make(case.get("model", "G2u"))
            names = list(model.names)
            mon = (INSMonitors if ins else StandardMonitors)(model)
            mon.abort_props = []
            fired = [False]
            new_snap = {}
            try:
                mon.arm()
                fs = FlowSampler(model, output=out, resume=seg > 0, importance_nested_sampler=ins, exit_code=130, **kw)
                ns = fs.ns
                if ins:
                    mon.min_samples = ns.min_samples
                info = dict(segment=seg, resumed=bool(getattr(ns, "resumed", False)), it=int(ns.iteration))
                if seg > 0 and not ns.resumed and (os.path.exists(rf) or not ins):
                    problems.append(("multi:did-not-resume", dict(segment=seg)))
                if seg > 0 and not ins and ns.resumed and snap:
                    pts = points_of(ns, names)
                    if sorted(pts) != sorted(set(snap["pts"])) or len(pts) != len(set(pts)):
                        problems.append(("multi:resume:points-not-conserved", dict(segment=seg, lost=len(set(snap["pts"]) - set(pts)), duplicated=len(pts) - len(set(pts)))))
                    if ns.iteration != snap["it"]:
                        problems.append(("multi:resume:iteration-differs", dict(segment=seg, interrupted_at=snap["it"], resumed_at=int(ns.iteration))))
                    if len(ns.nested_samples) != len(ns.state.logLs) - 1 or len(ns.insertion_indices) != ns.iteration:
                        problems.append(("multi:resume:counts-disagree", dict(segment=seg, nested=len(ns.nested_samples), state=len(ns.state.logLs) - 1, indices=len(ns.insertion_indices), it=int(ns.iteration))))

                def tracer(frame, event, arg):
                    if frame.f_code is code and it is not None:
                        def local(frame, event, arg):
                            if event == "line" and frame.f_lineno == target and not fired[0] and fs.ns.iteration >= it:
                                fired[0] = True
                                sys.settrace(None)
                                new_snap["it"] = int(fs.ns.iteration)
                                new_snap["had_checkpoint"] = os.path.exists(rf)
                                if not ins:
                                    new_snap["pts"] = points_of(fs.ns, names)
                                fs.safe_exit(case.get("signum", 15), frame)
                            return local
                        return local
                    return None

                sys.settrace(tracer)
                try:
                    fs.run(plot=False, save=False)
                    finished = True
                except SystemExit as e:
                    finished = False
                    if e.code != 130:
                        problems.append(("exit-code", e.code))
                finally:
                    sys.settrace(None)
                info["interrupted_at"] = new_snap.get("it")
                res["segments"].append(info)
                for prop, key, detail in mon.problems:
                    if prop in ("C01", "C03", "C04", "C05"):
                        problems.append((f"multi:segment{seg}:{prop}:{key}", detail))
                if not finished:
                    res["delivered"] += 1
                    snap = new_snap
                    if not os.path.exists(rf) and not (ins and not new_snap.get("had_checkpoint")):
                        problems.append(("handler-left-no-checkpoint", dict(segment=seg, interrupted_at_iteration=new_snap.get("it"))))
                    continue
                # ---- the run finished (possibly before a later interruption point was reached)
                ns = fs.ns
                if ins:
                    check_ins_result(fs, model, mon)
                    a = ns.samples_unit
                else:
                    mon.end_of_run(ns)
                    check_standard_result(fs, model, mon)
                    a = np.array(ns.nested_samples)
                pts = np.ascontiguousarray(np.stack([a[n] for n in names], axis=1))
                uniq = len(np.unique(pts.view([("", pts.dtype)] * pts.shape[1])))
                res["final"] = dict(it=int(ns.iteration), n=len(a), unique=uniq, sorted=bool(np.all(np.diff(a["logL"]) >= 0)), logZ=float(fs.logZ), finalised=bool(ns.finalised))
                if uniq != len(a):
                    problems.append(("final:discarded-point-recorded-twice", len(a) - uniq))
                if not res["final"]["sorted"]:
                    problems.append(("final:unsorted", ""))
                if not ins and (len(a) != ns.iteration + ns.nlive or len(ns.state.logLs) - 1 != len(a) or len(ns.insertion_indices) != ns.iteration):
                    problems.append(("final:counts-disagree", dict(n=len(a), it=int(ns.iteration), state=len(ns.state.logLs) - 1, indices=len(ns.insertion_indices))))
                for prop, key, detail in mon.problems:
                    if prop in ("C01", "C03", "C04", "C05") and not any(q[0].endswith(f"{prop}:{key}") for q in problems):
                        problems.append((f"final:{prop}:{key}", detail))
                break
            finally:
                mon.disarm()
                try:
                    model.close_pool()
                except Exception:
                    pass
    except BaseException as e:
        import traceback

        tb = traceback.format_exc()
        fn = [l.split(", in ")[-1].strip() for l in tb.splitlines() if l.strip().startswith("File ") and "/nessai/" in l][-1:]
        problems.append((f"resumed-run-raises:{type(e).__name__}@{fn[0] if fn else '?'}", str(e)[:150]))
    finally:
        sys.settrace(None)
        shutil.rmtree(out, ignore_errors=True)
    return res


REAL_SIGNAL_SCRIPT = r'''
import json, os, signal, sys, threading
cfg = json.loads(sys.argv[1])
from vlib.runs import std_kwargs, ins_kwargs, quiet_logging, reset_globals
from vlib import zoo
from checks.c13 import target_functions, lines_of, STD_KW, INS_KW, state_predicates, points_of, sha
from nessai.flowsampler import FlowSampler
quiet_logging(); reset_globals()
ins = cfg["sampler"] == "ins"
kw = (ins_kwargs if ins else std_kwargs)(dict(INS_KW if ins else STD_KW, **cfg.get("kwargs", {})))
model = zoo.make(cfg.get("model", "G2u"))
names = list(model.names)
fs = FlowSampler(model, output=cfg["outdir"], resume=False, importance_nested_sampler=ins, exit_code=cfg["exit_code"], **kw)
rf = os.path.join(cfg["outdir"], "nested_sampler_resume.pkl")
SIGS = [signal.SIGTERM, signal.SIGINT, signal.SIGALRM]
registered = {}
def wrap(orig):
    # observer around the handler nessai registered itself: records the state at the instant CPython runs the handler, then calls it unchanged
    def handler(signum, frame):
        ns = fs.ns
        snap = dict(it=int(ns.iteration), signum=int(signum))
        st, f = [], frame
        while f is not None:
            if "/nessai/" in f.f_code.co_filename:
                st.append(f.f_code.co_name)
            f = f.f_back
        snap["stack"] = st[:6]
        if not ins:
            snap["pts"] = points_of(ns, names)
            snap["pred"] = state_predicates(ns)
        else:
            snap["sha_before"] = sha(rf)
        with open(cfg["snapfile"], "w") as fh:
            json.dump(snap, fh)
        return orig(signum, frame)
    return handler
for sg in SIGS:
    h = signal.getsignal(sg)
    registered[int(sg)] = bool(callable(h) and h is not signal.default_int_handler)
    if registered[int(sg)]:
        signal.signal(sg, wrap(h))
with open(cfg["snapfile"] + ".reg", "w") as fh:
    json.dump(registered, fh)
signum = cfg["signum"]
if cfg.get("calibrate"):
    pass
elif cfg.get("delay") is None and cfg.get("how") != "call-count":
    # synchronous placement: the signal is raised before the first traced line of a function of the sampling loop once the phase is reached
    std, insf = target_functions()
    code, start, lns, src = lines_of((insf if ins else std)[cfg["func"]])
    fired = [False]
    def tracer(frame, event, arg):
        if frame.f_code is code and not fired[0]:
            def local(frame, event, arg):
                if event == "line" and not fired[0] and fs.ns.iteration >= cfg["min_it"]:
                    fired[0] = True
                    sys.settrace(None)
                    os.kill(os.getpid(), signum)   # a real signal: CPython runs the registered handler at the next bytecode boundary
                return local
            return local
    sys.settrace(tracer)
elif cfg.get("how") == "call-count":
    # deterministic "anywhere" placement: the signal is raised at the n-th entry of any Python function defined in nessai (nested callees included)
    n_target, n_seen = cfg["n_call"], [0]
    def prof(frame, event, arg):
        # generator frames are skipped: their "call" event also fires when a generator is resumed only to be closed / finalised, where CPython never runs a signal
        # handler (no eval-breaker check on a throw-resume) and where an exception raised by this callback would be "ignored": an interleaving the program cannot have
        if event == "call" and "/nessai/" in frame.f_code.co_filename and not frame.f_code.co_flags & 0x20:
            n_seen[0] += 1
            if n_seen[0] == n_target:
                sys.setprofile(None)
                os.kill(os.getpid(), signum)
    cls = type(fs.ns)
    loop = cls.nested_sampling_loop
    def start_then_loop(self, *a, **k):
        cls.nested_sampling_loop = loop
        sys.setprofile(prof)
        return loop(self, *a, **k)
    cls.nested_sampling_loop = start_then_loop
else:
    # asynchronous placement: the signal arrives after a wall-clock delay, wherever the run happens to be
    def arm():
        if signum == signal.SIGALRM and cfg.get("how") == "itimer":
            signal.setitimer(signal.ITIMER_REAL, cfg["delay"])
        else:
            t = threading.Timer(cfg["delay"], os.kill, (os.getpid(), signum))
            t.daemon = True
            t.start()
    cls = type(fs.ns)
    loop = cls.nested_sampling_loop
    def start_then_loop(self, *a, **k):
        cls.nested_sampling_loop = loop    # class attribute (never pickled), restored at once
        arm()
        return loop(self, *a, **k)
    cls.nested_sampling_loop = start_then_loop
if cfg.get("calibrate"):
    import time
    n_calls = [0]
    def count(frame, event, arg):
        if event == "call" and "/nessai/" in frame.f_code.co_filename and not frame.f_code.co_flags & 0x20:
            n_calls[0] += 1
    cls = type(fs.ns)
    loop = cls.nested_sampling_loop
    t_loop = [None, None]
    def timed_loop(self, *a, **k):
        cls.nested_sampling_loop = loop
        if cfg["calibrate"] == "calls":
            sys.setprofile(count)
        t_loop[0] = time.time()
        try:
            return loop(self, *a, **k)
        finally:
            sys.setprofile(None)
            t_loop[1] = time.time()
    cls.nested_sampling_loop = timed_loop
    fs.run(plot=False, save=False)
    print("CALIBRATION " + json.dumps(dict(calls=n_calls[0], seconds=t_loop[1] - t_loop[0], iterations=int(fs.ns.iteration))))
    sys.exit(0)
fs.run(plot=False, save=False)
print("NOT-INTERRUPTED")
'''


def calibrate(case):
    """Uninterrupted child run of the same configuration: wall-clock length of the sampling loop, or the number of nessai function entries in it."""
    assert_repo()
    out = case["outdir"]
    shutil.rmtree(out, ignore_errors=True)
    cfg = dict(case, outdir=out, snapfile=out + ".snap.json", signum=15, exit_code=130)
    try:
        p = subprocess.run(["/venv/bin/python", "-c", REAL_SIGNAL_SCRIPT, json.dumps(cfg)], capture_output=True, text=True, timeout=400, cwd=ROOT)
    finally:
        shutil.rmtree(out, ignore_errors=True)
        for f in (out + ".snap.json", out + ".snap.json.reg"):
            if os.path.exists(f):
                os.remove(f)
    line = [l for l in p.stdout.splitlines() if l.startswith("CALIBRATION ")]
    if not line:
        return dict(error=p.stderr[-300:])
    return json.loads(line[0][len("CALIBRATION "):])


def real_signal(case):
    """A real signal (os.kill / setitimer) reaches a child process that runs a sampler with nessai's own handlers installed; the exit status of the process is
    observed, then the checkpoint it left is resumed here under the monitors.  Placement is synchronous (before the first line of a chosen function once a phase is
    reached) or asynchronous (after a wall-clock delay, i.e. at whatever bytecode boundary the run has reached: nested calls included)."""
    assert_repo()
    from vlib.runs import quiet_logging

    quiet_logging()
    out = case["outdir"]
    shutil.rmtree(out, ignore_errors=True)
    snapfile = out + ".snap.json"
    for f in (snapfile, snapfile + ".reg"):
        if os.path.exists(f):
            os.remove(f)
    cfg = dict(case, outdir=out, snapfile=snapfile, signum=int(case["signum"]))
    env = dict(os.environ)
    try:
        p = subprocess.run(["/venv/bin/python", "-c", REAL_SIGNAL_SCRIPT, json.dumps(cfg)], capture_output=True, text=True, timeout=300, cwd=ROOT, env=env)
    except subprocess.TimeoutExpired:
        shutil.rmtree(out, ignore_errors=True)
        return dict(timeout=True)
    res = dict(func=case.get("func"), rel=None, min_it=case.get("min_it"), sampler=case["sampler"], signum=int(case["signum"]), rc=p.returncode,
               interrupted="NOT-INTERRUPTED" not in p.stdout, fired=False)
    reg = json.load(open(snapfile + ".reg")) if os.path.exists(snapfile + ".reg") else None
    res["registered"] = reg
    if reg is None:
        res["child_error"] = p.stderr[-400:]
        shutil.rmtree(out, ignore_errors=True)
        return res
    problems0 = []
    for sg, ok in reg.items():
        if not ok:
            problems0.append((f"no-handler-registered-for-signal-{sg}", ""))
    if not res["interrupted"] and os.path.exists(snapfile):
        # the registered handler ran (it wrote its snapshot) but the process carried on to the end of the run
        res.update(interrupted=True, fired=True, exit=p.returncode, handler_ran=True,
                   problems=problems0 + [("real-signal:handler-ran-but-the-process-did-not-exit", dict(rc=p.returncode, expected=case["exit_code"]))])
        shutil.rmtree(out, ignore_errors=True)
        return res
    if not res["interrupted"]:
        res["problems"] = problems0
        shutil.rmtree(out, ignore_errors=True)
        return res
    res["fired"] = True
    res["exit"] = p.returncode
    if os.path.exists(snapfile):
        snap = json.load(open(snapfile))
        if snap.get("pts") is not None:
            snap["pts"] = [tuple(q) for q in snap["pts"]]
    else:
        # the process ended without the registered handler having run (default action of the signal, or a crash): nothing is known about the instant
        snap = dict(pts=None, handler_did_not_run=True)
        res["stderr"] = p.stderr[-300:]
    res["stack"] = snap.get("stack")
    res["handler_ran"] = not snap.get("handler_did_not_run", False)
    if not res["handler_ran"]:
        res["problems"] = problems0 + [("real-signal:handler-did-not-run", dict(rc=p.returncode, expected=case["exit_code"]))]
        shutil.rmtree(out, ignore_errors=True)
        return res
    res = resume_and_check(case, res, snap)
    res["problems"] = problems0 + res["problems"]
    for f in (snapfile, snapfile + ".reg"):
        if os.path.exists(f):
            os.remove(f)
    return res


def classify(res, key):
    """Mechanism key.  Known mechanisms are decided by state predicates at the instant of interruption (never by line numbers)."""
    pred = res.get("pred") or {}
    if pred.get("integral_state_torn"):
        return "C13:integral-state-torn"
    if pred.get("replace_window"):
        # (asynchronous placements have no target function: the innermost interrupted nessai function recorded by the observer is used)
        if pred.get("iteration_not_advanced") and (res.get("func") or (res.get("stack") or [None])[0]) != "consume_sample":
            return "C13:" + key   # not the recorded mechanism: deeper in the replace step the iteration counter has always advanced already
        return "C13:replace-window"
    if pred.get("pool_flag_window"):
        return "C13:pool-flag-window"
    return "C13:" + key


def main():
    chk = Check("C13", "fault_enumeration")
    assert_repo()
    from vlib.farm import run_cases

    targets = list_targets()
    std_phases = [1, 30, 61, 120]          # first iteration, uninformed phase, the switch/first training, late flow phase
    ins_phases = [0, 2, 4]
    cases = []
    core = {"consume_sample", "yield_sample", "insert_live_point", "increment", "populate_live_points"}
    for k, t in enumerate(targets):
        rng = rng_for(chk.seed, "C13", t["func"], t["rel"])
        phases = std_phases if t["sampler"] == "std" else ins_phases
        if t["func"] in ("an_draw", "rj_populate"):
            phases = [1, 12, 30, 55]    # the uninformed proposals are only in use until the switch to the flow proposal (iteration 60 here)
        if t["func"] in ("populate_live_points", "initialise", "ins_populate_live_points", "ins_initialise"):
            phases = [0]                # the initial draw, before the first iteration
        if t["func"] in ("plot_state", "plot_trace"):
            phases = [1, 61]            # the plots are produced every nlive (= 50) iterations
        if chk.quick:
            # every line of the core replace step once, every 2nd-3rd line elsewhere, phase chosen by the seed
            if t["func"] in ("plot_state", "plot_trace", "ins_plot_state") and k % 12:
                continue   # long plotting functions, slow runs: every 12th line in the quick tier
            if t["func"] not in core and t["sampler"] == "std" and k % 3:
                continue
            if t["sampler"] == "ins" and k % 3:
                continue
            sel = [phases[int(rng.integers(len(phases)))]]
        else:
            sel = phases
        if t["func"] in ("an_draw",):
            kwargs = {"analytic_priors": True}
        elif t["func"] in ("plot_state", "plot_trace", "ins_plot_state"):
            kwargs = {"plot": True}
        else:
            kwargs = {}
        # configuration variants of the checkpoint schedule: the handler must leave a resumable state whatever the periodic schedule is
        if t["sampler"] == "std" and k % 4 == 1 and t["func"] not in core:
            kwargs = dict(kwargs, checkpointing=False)                                    # periodic checkpointing disabled
        elif t["sampler"] == "ins" and k % 4 == 2:
            kwargs = dict(kwargs, checkpoint_on_iteration=False, checkpoint_interval=0.01)  # time-based schedule whose interval has always elapsed
        for ph in sel:
            cases.append(dict(t, min_it=ph, kwargs=kwargs, outdir=os.path.join(chk.scratch, f"inj-{t['sampler']}-{t['func']}-{t['rel']}-{ph}"), _timeout=400,
                              signum=[15, 2, 14][(k + ph) % 3]))
    if not chk.quick:
        # bytecode granularity for the core of the replace step: the handler is invoked before the n-th executed opcode of one call
        for fn, nmax, step in (("insert_live_point", 90, 1), ("increment", 260, 1), ("consume_sample", 520, 2)):
            t0 = next(t for t in targets if t["func"] == fn)
            for ph in (30, 120):
                for n in range(0, nmax, step):
                    cases.append(dict(sampler="std", func=fn, rel=t0["rel"], stmt=f"opcode #{n} of {fn}", min_it=ph, opcode=n, kwargs={}, signum=15,
                                      outdir=os.path.join(chk.scratch, f"op-{fn}-{n}-{ph}"), _timeout=400))
    if chk.replay_case:
        c = dict(chk.replay_case["case"])
        c["outdir"] = os.path.join(chk.scratch, "replay")
        r = multi(c) if c.get("multi") else (inject(c) if "rel" in c else real_signal(c))
        print(json.dumps(r, indent=1, default=str)[:3000])
        return
    if chk.args.only:
        cases = [c for c in cases if chk.args.only in c["func"]]
    res = run_cases(cases, "checks.c13:inject", chk.scratch, nproc=chk.args.nproc, timeout=400)
    reached_lines = set()
    states = set()
    per_func = {}
    kinds = {}
    for c, r in zip(cases, res):
        small = {k: c[k] for k in ("sampler", "func", "rel", "min_it", "kwargs", "signum", "stmt", "opcode") if k in c}
        if "fired" not in r:
            chk.note_inconclusive(f"injection {c['func']}+{c['rel']}@{c['min_it']}: {str(r)[:300]}")
            chk.case_done()
            continue
        per_func.setdefault((c["sampler"], c["func"]), [0, 0])
        if not r["fired"]:
            chk.count("injection_points_not_reached")
            per_func[(c["sampler"], c["func"])][1] += 1
            chk.case_done()
            continue
        chk.count("injections_delivered")
        per_func[(c["sampler"], c["func"])][0] += 1
        chk.count("injections_" + c["sampler"])
        reached_lines.add((c["func"], c["rel"] if c.get("opcode") is None else r.get("snap_line")))
        if c.get("opcode") is not None:
            chk.count("opcode_level_injections_delivered")
        pred = r.get("pred") or {}
        states.add((c["sampler"], tuple(sorted(k for k, v in pred.items() if v))))
        for k, v in pred.items():
            if v:
                chk.count("interrupted_in_state_" + k)
        ok = not r["problems"]
        chk.count("injections_resumed_to_valid_run" if ok else "injections_with_problems")
        chk.case_done(ident=(c["sampler"], c["func"], c["rel"], c["min_it"], c.get("opcode")), nontrivial=True,
                      sample=dict(injection=small, interrupted_at_iteration=r.get("snap_it"), state_predicates=pred, exit=r.get("exit"), resume=r.get("resume"), final=r.get("final"),
                                  problems=r["problems"][:2]) if len(chk.samples) < 5 and (c["func"] in ("update_state", "ins_loop", "consume_sample")) else None)
        seen = set()
        for key, detail in r["problems"]:
            k = classify(r, key)
            kinds.setdefault(k, {})
            kinds[k][key] = kinds[k].get(key, 0) + 1
            if k in seen:
                continue
            seen.add(k)
            chk.violation(k, f"{c['sampler']} signal {c['signum']} before `{c['stmt']}` ({c['func']}+{c['rel']}, iteration >= {c['min_it']}, interrupted at {r.get('snap_it')}, "
                             f"state {pred}): {key}: {detail}; resume={r.get('resume')} final={r.get('final')}", small)
    # ---- histories with several interruptions (state carried over more than one resume)
    mcases = []
    n_multi = 15 if chk.quick else 100
    for i in range(n_multi):
        rng = rng_for(chk.seed, "C13", "multi", i)
        if i % 5 == 4:
            its = sorted({int(v) for v in rng.choice([1, 2, 3, 4], size=int(rng.integers(2, 4)), replace=False)})
            mcases.append(dict(sampler="ins", func="ins_loop", its=its, kwargs={}, signum=[15, 2][i % 2], outdir=os.path.join(chk.scratch, f"multi-{i}"), _timeout=600))
            continue
        kind = i % 5
        kwargs = {}
        if kind in (0, 1):      # all interruptions inside a long uninformed phase, far enough apart that every session exhausts the pickled pool and draws fresh ones
            kwargs = dict(maximum_uninformed=170, uninformed_acceptance_threshold=0.0)
            its = [int(rng.integers(5, 40))]
            for _ in range(int(rng.integers(1, 4))):
                its.append(its[-1] + int(rng.integers(12, 45)))
        elif kind == 2:         # across the switch to the flow proposal
            its = sorted({int(rng.integers(20, 58)), int(rng.integers(58, 70)), int(rng.integers(70, 130))})
        else:                   # flow phase
            its = sorted({int(v) for v in rng.integers(62, 220, size=int(rng.integers(2, 4)))})
        kwargs = dict(kwargs, **({"analytic_priors": True} if i % 10 == 1 else ({"seed": 0} if i % 10 == 5 else {})))
        mcases.append(dict(sampler="std", func="update_state", its=its, kwargs=kwargs, model="G2n" if i % 10 == 1 else "G2u", signum=[15, 2, 14][i % 3],
                           outdir=os.path.join(chk.scratch, f"multi-{i}"), _timeout=600))
    if chk.args.only:
        mcases = [c for c in mcases if chk.args.only in "multi"]
    mres = run_cases(mcases, "checks.c13:multi", chk.scratch, nproc=chk.args.nproc, timeout=600)
    for c, r in zip(mcases, mres):
        small = {k: c[k] for k in ("sampler", "func", "its", "kwargs", "signum", "model") if k in c}
        if "delivered" not in r:
            chk.note_inconclusive(f"multi-interruption history {small}: {str(r)[:300]}")
            chk.case_done()
            continue
        chk.count("multi_histories")
        chk.count("multi_interruptions_delivered", r["delivered"])
        if r["delivered"] >= 2:
            chk.count("multi_histories_with_two_or_more_resumes")
        chk.case_done(ident=("multi", c["sampler"], tuple(c["its"]), str(c["kwargs"])), nontrivial=r["delivered"] >= 2 and "final" in r,
                      sample=dict(multi_history=small, segments=r["segments"], final=r.get("final"), problems=r["problems"][:2]) if len(chk.samples) < 9 and c["outdir"].endswith(("multi-0", "multi-4")) else None)
        seen = set()
        for key, detail in r["problems"]:
            k = "C13:" + key.split(":segment")[0] if ":segment" in key else "C13:" + key
            if k in seen:
                continue
            seen.add(k)
            chk.violation(k, f"{c['sampler']} history with interruptions at iterations {c['its']} (signal {c['signum']}, before the first line of {c['func']}), "
                             f"{r['delivered']} delivered: {key}: {detail}; segments={r['segments']} final={r.get('final')}", dict(small, multi=True))
    # ---- real signals: (a) raised at chosen points, every signal x both samplers; (b) asynchronous, after a wall-clock delay
    rs_cases = []
    sync = [("std", "consume_sample", 1, signal.SIGTERM, 130), ("std", "yield_sample", 30, signal.SIGINT, 7), ("std", "fp_populate", 61, signal.SIGALRM, 3),
            ("ins", "ins_loop", 2, signal.SIGALRM, 130), ("ins", "add_and_update_points", 2, signal.SIGTERM, 7), ("ins", "ifp_draw", 2, signal.SIGINT, 3),
            ("std", "update_state", 1, signal.SIGALRM, 130), ("std", "check_state", 61, signal.SIGTERM, 130), ("std", "nested_sampling_loop", 30, signal.SIGINT, 130),
            ("std", "plot_state", 1, signal.SIGINT, 9), ("ins", "ins_plot_state", 1, signal.SIGTERM, 9)]
    if not chk.quick:
        sync = sync + [(s_, f_, ph + 2, [signal.SIGTERM, signal.SIGINT, signal.SIGALRM][(j + 1 + [signal.SIGTERM, signal.SIGINT, signal.SIGALRM].index(sg)) % 3], ec)
                       for j in range(2) for (s_, f_, ph, sg, ec) in sync]
    for i, (s_, fn, ph, sg, ec) in enumerate(sync):
        rs_cases.append(dict(sampler=s_, func=fn, min_it=ph, signum=int(sg), exit_code=ec, kwargs={"plot": True} if "plot" in fn else {},
                             outdir=os.path.join(chk.scratch, f"real-{i}"), _timeout=500))
    cal_cases = [dict(sampler=s_, calibrate=how, kwargs={}, outdir=os.path.join(chk.scratch, f"cal-{s_}-{how}"), _timeout=450) for s_ in ("std", "ins") for how in ("time", "calls")]
    cal = {}
    if not chk.args.only or chk.args.only in ("real", "async"):
        for c, r in zip(cal_cases, run_cases(cal_cases, "checks.c13:calibrate", chk.scratch, nproc=chk.args.nproc, timeout=450)):
            cal[(c["sampler"], c["calibrate"])] = r
    chk.extra["calibration_runs"] = {f"{k[0]}:{k[1]}": v for k, v in cal.items()}
    cal_ok = all(("seconds" in cal.get((s_, "time"), {})) and cal.get((s_, "calls"), {}).get("calls", 0) > 100 for s_ in ("std", "ins"))
    if not cal_ok and cal:
        chk.note_inconclusive(f"calibration runs of the asynchronous-signal section failed: {str(cal)[:300]}")
    n_async = (16 if chk.quick else 240) if cal_ok else 0
    for i in range(n_async):
        rng = rng_for(chk.seed, "C13", "async", i)
        s_ = "ins" if i % 4 == 3 else "std"
        sg = [signal.SIGALRM, signal.SIGTERM, signal.SIGINT][i % 3]
        kwargs = {}
        if s_ == "std" and i % 8 == 5:
            kwargs = dict(checkpointing=False)
        c = dict(sampler=s_, func=None, min_it=None, signum=int(sg), exit_code=[130, 7][i % 2], kwargs=kwargs, outdir=os.path.join(chk.scratch, f"async-{i}"), _timeout=500)
        if i % 2:
            # the n-th entry of any nessai function during the sampling loop (deterministic, replayable; callees of the enumerated functions included)
            c.update(how="call-count", n_call=int(rng.integers(1, max(2, int(0.97 * cal[(s_, "calls")]["calls"])))))
        else:
            # wall-clock delay within the measured length of the loop: whatever bytecode boundary the run has reached (not replayable; the stack is recorded)
            c.update(how="itimer" if sg == signal.SIGALRM else "kill", delay=round(float(rng.uniform(0.01, 0.9 * cal[(s_, "time")]["seconds"])), 3))
        rs_cases.append(c)
    if chk.args.only:
        rs_cases = [c for c in rs_cases if chk.args.only in ("real", "async") and (chk.args.only == "real" or c.get("how") is not None)]
    rres = run_cases(rs_cases, "checks.c13:real_signal", chk.scratch, nproc=chk.args.nproc, timeout=500)
    async_stacks = set()
    for ci, (c, r) in enumerate(zip(rs_cases, rres)):
        small = {k: v for k, v in c.items() if k not in ("outdir", "_timeout")}
        is_async = c.get("how") is not None
        if "rc" not in r or r.get("registered") is None:
            chk.note_inconclusive(f"real signal {small}: {str(r)[:300]}")
            chk.case_done()
            continue
        chk.count("real_signal_processes")
        for key, detail in (r.get("problems") or []) if not r["interrupted"] else []:
            chk.violation("C13:" + key, f"{c['sampler']} sampler: {key}", small)
        if not r["interrupted"]:
            chk.count("real_signal_points_not_reached")
            chk.case_done()
            continue
        chk.count("real_signals_delivered")
        chk.count(f"real_signal_{int(c['signum'])}_delivered_{c['sampler']}")
        chk.count("real_signals_asynchronous" if is_async else "real_signals_at_chosen_points")
        pred = r.get("pred") or {}
        if is_async:
            async_stacks.add((c["sampler"], tuple(r.get("stack") or ())))
            states.add((c["sampler"], tuple(sorted(k for k, v in pred.items() if v))))
        ok = not r["problems"]
        chk.count("real_signals_resumed_to_valid_run" if ok else "real_signals_with_problems")
        chk.case_done(ident=("real", c["sampler"], c.get("func"), c["signum"], c.get("delay"), c.get("n_call")), nontrivial=True,
                      sample=dict(real_signal=small, process_exit_status=r["rc"], interrupted_at_iteration=r.get("snap_it"), interrupted_stack=r.get("stack"), state_predicates=pred,
                                  resume=r.get("resume"), final=r.get("final"), problems=r["problems"][:2]) if len(chk.samples) < 9 and (ci % 3 == 0 or not is_async) else None)
        seen = set()
        for key, detail in r["problems"]:
            k = classify(r, key)
            kinds.setdefault(k, {})
            kinds[k][key] = kinds[k].get(key, 0) + 1
            if k in seen:
                continue
            seen.add(k)
            chk.violation(k, f"real signal {int(c['signum'])} ({('after %.3f s' % c['delay'] if c.get('delay') is not None else 'at nessai function entry #%d' % c['n_call']) if is_async else 'before the first line of ' + c['func']}) in the {c['sampler']} sampler, "
                             f"interrupted at iteration {r.get('snap_it')} in {r.get('stack')}, state {pred}, process exit status {r['rc']} (configured {c['exit_code']}): {key}: {detail}; "
                             f"resume={r.get('resume')} final={r.get('final')}", small)
    chk.extra["asynchronous_signal_distinct_interrupted_stacks"] = sorted(str(x) for x in async_stacks)
    chk.extra["problem_kinds_by_mechanism"] = kinds
    chk.extra["injections_delivered_and_not_reached_per_function"] = {f"{k[0]}:{k[1]}": v for k, v in sorted(per_func.items())}
    never = sorted(f"{k[0]}:{k[1]}" for k, v in per_func.items() if v[0] == 0)
    chk.extra["functions_in_which_no_injection_was_delivered"] = never
    if never and not chk.args.only:
        chk.note_inconclusive(f"no injection was delivered in {never}: that part of the sampling loop was not observed in this run")
    chk.extra["distinct_source_lines_interrupted"] = len(reached_lines)
    chk.extra["distinct_interruption_states"] = sorted(str(s) for s in states)
    chk.extra["lines_available"] = len(targets)
    chk.assumptions += ["Python-level handlers run at bytecode boundaries of the main thread: line granularity (thorough: every line x 4 phases) is the granularity explored",
                        "a signal arriving inside a C call (numpy/torch/pickle) is deferred by CPython to the next boundary, which is covered"]
    chk.finish("the real handler FlowSampler.safe_exit is invoked from a trace hook before source lines of the sampling loop (standard: consume_sample, yield_sample, "
               "insert_live_point, _NSIntegralState.increment, update_state, check_state, check_training, check_proposal_switch, train_proposal, loop, finalise, proposal "
               "draw/populate/train; INS: loop, add_and_update_points, remove_samples, add_new_proposal(+weight), OrderedSamples methods, proposal draw/train) at phases "
               "covering the first iteration, uninformed sampling, the switch/first training and late flow sampling; exit code, conservation of points at resume, count "
               "identities and the completed run (C01/C03/C05 monitors) are checked; INS: resume file hash unchanged by the handler. Plus real signals: every one of SIGTERM/SIGINT/"
               "SIGALRM for each sampler (three exit codes) raised with os.kill in child processes that keep nessai's own registered handlers (an observer wrapped around "
               "whatever signal.getsignal returns records the state at the instant the handler runs), at chosen function heads and 'anywhere': at the n-th entry of any nessai "
               "function of the sampling loop (n uniform over a calibration count; deterministic) and after a wall-clock delay (setitimer / a timer thread; uniform over the "
               "measured length of the loop) - the process exit status must be the configured code and the checkpoint left is resumed and finished under the same oracles. Plus histories with 2-4 interruptions and resumes in a row (uninformed phase, across the "
               "proposal switch, flow phase, INS iteration heads), each delivered at a point where the state is consistent, with point conservation checked at every resume "
               "and the monitors armed in every segment. Non-trivial = injection that was delivered; distinct by (function, line, phase).",
               require_observed=["injections_delivered", "injections_std", "injections_ins", "real_signals_delivered", "injections_resumed_to_valid_run", "multi_histories_with_two_or_more_resumes",
                                 "real_signal_15_delivered_std", "real_signal_2_delivered_std", "real_signal_14_delivered_std", "real_signal_15_delivered_ins", "real_signal_2_delivered_ins",
                                 "real_signal_14_delivered_ins", "real_signals_asynchronous"])


if __name__ == "__main__":
    main()
