"""C12 — resuming restores the checkpointed state and yields a valid, accounted run.

Histories: a run with a checkpoint schedule is killed by os._exit(9) at the K-th sampler-attributed likelihood point, resumed in a fresh process, killed again ...,
then run to completion.  Monitors: (1) generic state digest taken at the moment of pickling vs digest of the restored sampler taken inside the real run path;
(2) offline accounting over the user-boundary event logs of all segments; (3) the C01/C03/C05 monitors armed in every segment and on the final result.
"""
import json
import os
import subprocess

from vlib.common import Check, assert_repo, rng_for, ROOT

SCHEDULES = [
    ("every-iteration", dict(checkpoint_on_iteration=True, checkpoint_interval=1)),
    ("every-7", dict(checkpoint_on_iteration=True, checkpoint_interval=7)),
    ("every-50", dict(checkpoint_on_iteration=True, checkpoint_interval=50)),
    ("time-0.2s", dict(checkpoint_on_iteration=False, checkpoint_interval=0.2)),
    # checkpoint_on_training goes through the periodic path: it only writes when the interval has elapsed, so the interval must be short for it to write at all
    ("on-training", dict(checkpoint_on_iteration=True, checkpoint_interval=25, checkpoint_on_training=True)),
    ("on-training-time", dict(checkpoint_on_iteration=False, checkpoint_interval=0.05, checkpoint_on_training=True)),
]
STD_VARIANTS = [
    ("default", "G2u", {}),
    ("analytic-nonuniform", "G2n", {"analytic_priors": True}),
    ("uninformed-50-maf", "G2u", {"maximum_uninformed": 50, "flow_config": {"ftype": "maf"}}),
    ("nball-inversion", "G2u", {"latent_prior": "uniform_nball", "reparameterisations": {"x0": "inversion", "x1": "default"}}),
    ("augmented", "G2u", {"flow_proposal_class": "AugmentedFlowProposal", "marginalise_augment": True, "n_marg": 5, "max_iteration": 500}),
    ("gw", "GW5", {"flow_proposal_class": "GWFlowProposal", "max_iteration": 450}),
    ("memory-reset", "G2u", {"memory": 50, "reset_weights": 2}),
    ("custom-resume-file", "G2u", {"resume_file": "state_of_my_run.pkl"}),
    ("default-plots", "G2u", {"plot": True, "nlive": 50}),
]
INS_VARIANTS = [
    ("ins-default", "G2u", {}),
    ("ins-saved-logq", "G2u", {"save_log_q": True}),
    ("ins-no-iid", "G2u", {"draw_iid_live": False}),
    ("ins-strict-variable", "G2n", {"strict_threshold": True, "draw_constant": False}),
    ("ins-keep-old-checkpoint", "G2u", {"save_existing_checkpoint": True, "save_log_q": True}),
    ("ins-maf", "G2u", {"flow_config": {"ftype": "maf"}, "max_iteration": 8}),
    ("ins-custom-resume-file", "G2u", {"resume_file": "state_of_my_run.pkl", "save_log_q": True}),
    ("ins-time-schedule", "G2u", {"checkpoint_on_iteration": False, "checkpoint_interval": 0.0}),
    ("ins-default-plots", "G2u", {"plot": True}),
]


def read_log(logdir):
    segs = []
    i = 0
    while os.path.exists(os.path.join(logdir, f"seg{i}.jsonl")):
        evs = []
        for line in open(os.path.join(logdir, f"seg{i}.jsonl")):
            line = line.strip()
            if line:
                try:
                    evs.append(json.loads(line))
                except json.JSONDecodeError:
                    pass  # torn last line of a killed segment
        segs.append(evs)
        i += 1
    return segs


def history_worker(case):
    assert_repo()
    out, logdir = case["outdir"], case["outdir"] + "-log"
    env = dict(os.environ)
    exits = []
    kills = list(case["kills"]) + [0]
    for seg, k in enumerate(kills):
        cfg = dict(sampler=case["sampler"], model=case["model"], kwargs=case["kwargs"], outdir=out, logdir=logdir, seg=seg, kill_at=k, callback=bool(case.get("callback")))
        try:
            p = subprocess.run(["/venv/bin/python", "-m", "vlib.segment_run", json.dumps(cfg)], capture_output=True, text=True, timeout=case["seg_timeout"], env=env, cwd=ROOT)
            exits.append(p.returncode)
            if p.returncode not in (0, 9):
                return dict(exits=exits, segs=read_log(logdir), stderr=p.stderr[-1500:])
            if p.returncode == 0:
                break  # finished before the kill point was reached
        except subprocess.TimeoutExpired:
            exits.append("timeout")
            return dict(exits=exits, segs=read_log(logdir), timeout=True)
    return dict(exits=exits, segs=read_log(logdir))


def analyse(case, res):
    """Offline checker over the recorded events.  Returns (problems [(key, detail)], stats)."""
    probs = []
    stats = dict(segments=len(res["segs"]), restores=0, checkpoints=0, fields_compared=0, kills=sum(1 for e in res["exits"] if e == 9))
    ckpts = {}
    allowed_kinds = {}
    for si, evs in enumerate(res["segs"]):
        start = next((e for e in evs if e["ev"] == "start"), None)
        if start is None:
            continue  # killed before the sampler was constructed
        if start["resumed"]:
            ck = ckpts.get(start["loaded_seq"])
            if ck is None:
                probs.append(("accounting:resumed-from-unknown-checkpoint", dict(segment=si, loaded_seq=start["loaded_seq"])))
            else:
                for fld in ("counter", "sampling_time", "training_time", "likelihood_evaluation_time"):
                    a, b = start[fld], ck[fld]
                    if fld == "counter":
                        if a != b:
                            kind = "reset" if a < b else "double-counted"
                            probs.append((f"accounting:likelihood-evaluations-{kind}-on-resume", dict(segment=si, restored=a, checkpointed=b)))
                    elif abs(a - b) > 1e-9:
                        probs.append((f"accounting:{fld}-not-restored", dict(segment=si, restored=a, checkpointed=b)))
                if start["it"] != ck["it"]:
                    probs.append(("restore:iteration-differs", dict(segment=si, restored=start["it"], checkpointed=ck["it"])))
        elif si > 0 and any(e["ev"] == "ckpt" for evs0 in res["segs"][:si] for e in evs0):
            probs.append(("restore:checkpoint-existed-but-run-restarted", dict(segment=si)))
        # times accounted in this segment can neither exceed the wall-clock time the segment has been running (double counting) nor go backwards (reset)
        prev_t = {fld: start[fld] for fld in ("sampling_time", "training_time", "likelihood_evaluation_time")}
        for e in evs:
            if e["ev"] in ("ckpt", "done") and "wall" in e and "wall" in start:
                elapsed = e["wall"] - start["wall"]
                for fld in ("sampling_time", "training_time", "likelihood_evaluation_time"):
                    if fld not in e:
                        continue
                    stats["timing_checks"] = stats.get("timing_checks", 0) + 1
                    if e[fld] - start[fld] > 1.02 * elapsed + 0.1:
                        probs.append((f"accounting:{fld}-exceeds-elapsed-wall-time-of-the-segment", dict(segment=si, seq=e.get("seq"), accounted_in_segment=e[fld] - start[fld], wall_elapsed=elapsed)))
                    if e[fld] < prev_t[fld] - 1e-9:
                        probs.append((f"accounting:{fld}-went-backwards", dict(segment=si, seq=e.get("seq"), value=e[fld], previous=prev_t[fld])))
                    prev_t[fld] = e[fld]
            if e["ev"] == "ckpt":
                stats["checkpoints"] += 1
                ckpts[e["seq"]] = e
                if e["counter"] - start["counter"] != e["pts"]:
                    probs.append(("accounting:counter-differs-from-calls-at-user-boundary", dict(segment=si, seq=e["seq"], counter=e["counter"], start=start["counter"], boundary_points=e["pts"])))
            elif e["ev"] == "restore":
                stats["restores"] += 1
                stats["fields_compared"] += e.get("fields", 0)
                for k, v in (e.get("allowed") or {}).items():
                    allowed_kinds[k] = allowed_kinds.get(k, 0) + v
                if e.get("error"):
                    probs.append(("restore:" + e["error"].replace(" ", "-"), dict(segment=si)))
                for path, a, b in e.get("diffs", []):
                    field = path.split(".")[-1].split("[")[0]
                    probs.append((f"restore:field-differs:{field}", dict(segment=si, path=path, pickled=a, restored=b)))
            elif e["ev"] == "error":
                fn = [l.split(", in ")[-1].strip() for l in e.get("traceback", "").splitlines() if l.strip().startswith("File ") and "/nessai/" in l][-1:]
                probs.append((f"resumed-run-raises:{e['error'].split(':')[0]}@{fn[0] if fn else '?'}", dict(segment=si, error=e["error"][:200])))
            elif e["ev"] == "done":
                if "run_wall" in e and e["run_wall"] == e["run_wall"]:   # (NaN: no checkpoint was written in the finishing segment, nothing was added to the clock)
                    # the segment that finishes the run: the sampling time accounted in it cannot be much less than the wall time of its sampling loop (time lost, e.g. a
                    # clock restarted without adding what had elapsed)
                    stats["timing_checks"] = stats.get("timing_checks", 0) + 1
                    acc = e["sampling_time"] - start["sampling_time"]
                    stats.setdefault("accounted_over_run_wall", []).append(round(acc / max(e["run_wall"], 1e-9), 3))
                    if acc > 1.02 * e["run_wall"] + 0.2:
                        probs.append(("accounting:sampling_time-exceeds-the-wall-time-of-the-sampling-loop-of-the-final-segment", dict(segment=si, accounted_in_segment=acc, loop_wall_without_checkpoint_writes=e["run_wall"])))
                    if acc < 0.8 * e["run_wall"] - 0.3:
                        probs.append(("accounting:sampling_time-far-below-the-wall-time-of-the-sampling-loop-of-the-final-segment", dict(segment=si, accounted_in_segment=acc, run_wall=e["run_wall"])))
                if e["counter"] - start["counter"] != e["pts"] or e["reported_total"] != e["counter"]:
                    probs.append(("accounting:final-total-differs-from-calls-at-user-boundary", dict(counter=e["counter"], start=start["counter"], boundary_points=e["pts"], reported=e["reported_total"])))
                if e["unique_points"] != e["n"]:
                    probs.append(("result:duplicated-samples-after-resume", dict(n=e["n"], unique=e["unique_points"])))
                if not e["sorted"]:
                    probs.append(("result:unsorted", {}))
                if e["oob"]:
                    probs.append(("result:likelihood-called-out-of-bounds", e["oob"]))
                for prop, key, detail in e.get("problems", []):
                    probs.append((f"final-run-invariant:{prop}:{key}", detail))
                stats["done"] = True
                stats["final_iteration"] = e["it"]
    # mechanism predicate for the known finding: the run was resumed from a checkpoint that checkpoint_on_training wrote in the middle of an iteration
    # (worst point already recorded, replacement not yet inserted)
    stats["resumed_from_mid_iteration_checkpoint"] = any(
        (e["ev"] == "start" and e.get("resumed") and ckpts.get(e.get("loaded_seq"), {}).get("mid_iteration")) for evs in res["segs"] for e in evs)
    stats["mid_iteration_checkpoints"] = sum(1 for c in ckpts.values() if c.get("mid_iteration"))
    stats["allowed_kinds"] = allowed_kinds
    if not stats.get("done") and not probs:
        probs.append(("history-did-not-complete", dict(exits=res["exits"], stderr=res.get("stderr", "")[-300:])))
    return probs, stats


def main():
    chk = Check("C12", "exploration")
    assert_repo()
    from vlib.farm import run_cases

    n_hist = 24 if chk.quick else 300
    cases = []
    for i in range(n_hist):
        rng = rng_for(chk.seed, "C12", i)
        ins = i % 3 == 2
        variants = INS_VARIANTS if ins else STD_VARIANTS
        vname, model, kw = variants[(i // 3) % len(variants)]
        sname, sched = SCHEDULES[int(rng.integers(len(SCHEDULES)))] if not ins else ("every-iteration", dict(checkpoint_on_iteration=True, checkpoint_interval=1 if chk.quick else int(rng.choice([1, 1, 2]))))
        kw = dict(dict(kw, checkpointing=True, seed=int(rng.integers(1, 2**31 - 1))), **{k: v for k, v in sched.items() if k not in kw})
        nk = int(rng.integers(1, 4 if chk.quick else 6))
        # the importance sampler checkpoints at iteration boundaries (every ~400 likelihood points here): kill points are spread so that most histories
        # contain at least one completed checkpoint, and some are killed before the first one
        kills = [int(rng.integers(450, 1300)) if ins else int(rng.integers(1, 700)) for _ in range(nk)]
        if ins:
            kills[0] = int(rng.integers(850, 1550))   # after the first iteration-boundary checkpoint (written at 800 points), before convergence
        if rng.random() < (0.15 if ins else 0.3):
            kills[0] = int(rng.integers(1, 120))   # during the initial draws / early uninformed phase
        # every fourth history checkpoints through a user checkpoint_callback and resumes through resume_data instead of the resume file
        cases.append(dict(idx=i, sampler="ins" if ins else "std", variant=vname, model=model, kwargs=kw, schedule=sname, kills=kills, callback=(i % 4 == 1),
                          outdir=os.path.join(chk.scratch, f"hist-{i}"), seg_timeout=300, _timeout=300 * (nk + 1) + 60))
    if chk.replay_case:
        c = dict(chk.replay_case["case"])
        c["outdir"] = os.path.join(chk.scratch, "replay")
        c.setdefault("seg_timeout", 300)
        r = history_worker(c)
        print(r["exits"])
        print(analyse(c, r))
        return
    if chk.args.only:
        cases = [c for c in cases if chk.args.only in c["variant"]]
    res = run_cases(cases, "checks.c12:history_worker", chk.scratch, nproc=chk.args.nproc, timeout=2000)
    allowed_total = {}
    ratios = []
    for c, r in zip(cases, res):
        small = {k: c[k] for k in ("idx", "sampler", "variant", "model", "kwargs", "schedule", "kills", "callback")}
        if "segs" not in r or r.get("timeout"):
            chk.note_inconclusive(f"history {c['idx']} ({c['variant']}): {str(r)[:400]}")
            chk.case_done()
            continue
        probs, st = analyse(c, r)
        chk.count("segments", st["segments"])
        chk.count("kills_delivered", st["kills"])
        chk.count("checkpoints_digested", st["checkpoints"])
        chk.count("restores_compared", st["restores"])
        chk.count("restores_compared_" + c["sampler"], st["restores"])
        chk.count("state_fields_compared", st["fields_compared"])
        chk.count("histories_completed", 1 if st.get("done") else 0)
        chk.count("timing_bounds_checked", st.get("timing_checks", 0))
        ratios += st.get("accounted_over_run_wall", [])
        if c.get("callback"):
            chk.count("restores_compared_through_checkpoint_callback_and_resume_data", st["restores"])
        for k, v in st["allowed_kinds"].items():
            allowed_total[k] = allowed_total.get(k, 0) + v
        chk.case_done(ident=(c["variant"], c["schedule"], tuple(c["kills"]), c["kwargs"]["seed"]), nontrivial=st["restores"] > 0 and st.get("done", False),
                      sample=dict(history=small, exits=r["exits"], restores=st["restores"], checkpoints=st["checkpoints"], final_iteration=st.get("final_iteration")) if c["idx"] < 3 else None)
        chk.count("mid_iteration_checkpoints_written", st["mid_iteration_checkpoints"])
        if st["resumed_from_mid_iteration_checkpoint"]:
            chk.count("histories_resumed_from_mid_iteration_checkpoint")
        seen_mid = False
        for key, detail in probs:
            if st["resumed_from_mid_iteration_checkpoint"] and c["kwargs"].get("checkpoint_on_training") and (
                    key.startswith(("result:duplicated-samples-after-resume", "final-run-invariant:C01:", "final-run-invariant:C05:", "restore:"))):
                if seen_mid:
                    continue
                seen_mid = True
                key = "checkpoint-on-training:resumed-from-mid-iteration-checkpoint"
            chk.violation("C12:" + key, f"history {c['idx']} {c['sampler']}/{c['variant']} schedule={c['schedule']} kills={c['kills']} exits={r['exits']}: {detail}", small)
    chk.extra["allowed_differences_seen"] = allowed_total
    chk.extra["final_segment_accounted_sampling_time_over_run_wall_min_median"] = [float(min(ratios)), float(sorted(ratios)[len(ratios) // 2])] if ratios else None
    chk.assumptions += ["fields allowed to differ between the pickled and the restored object are listed with reasons in vlib/digest.py (flow weights are outside the property's list)",
                        "kills are os._exit(9) at a likelihood call of the main process (no pool)"]
    chk.finish("seeded kill/resume histories (1-3 kills quick, 1-5 thorough; kill = os._exit(9) at the K-th sampler-attributed likelihood point; checkpoint schedules every 1/7/50 "
               "iterations, every 0.2 s, on training) over 7 standard and 6 INS variants; every checkpoint is digested at pickling (generic object-graph walk) and compared "
               "field by field after restore inside the real run path; evaluation counts and timings are checked cumulatively against the user-boundary call log of every "
               "segment; the accounted sampling / training / likelihood times may neither exceed the wall-clock time of their segment nor go backwards; every fourth history "
               "checkpoints through a user checkpoint_callback and resumes through resume_data instead of the resume file; the C01/C03/C05 monitors stay armed in every segment and on the final result. Non-trivial = history with at least one compared restore that ran "
               "to completion; distinct by (variant, schedule, kill points, seed).",
               require_observed=["restores_compared", "restores_compared_std", "restores_compared_ins", "state_fields_compared", "histories_completed", "kills_delivered",
                                 "timing_bounds_checked", "restores_compared_through_checkpoint_callback_and_resume_data"])


if __name__ == "__main__":
    main()
