#!/usr/bin/env python3
"""Self-validation: break the property on a scratch copy of /repo (never in /repo) and confirm the check fires.

usage: selfval/run.py C02 [mutant-name ...] [--tier quick] [--jobs 4]
Mutants live in selfval/mutants.json: {"C02": [{"name":..., "file": "nessai/evidence.py", "old": "...", "new": "..."}]}
Each mutant gets its own copy under /tmp (removed afterwards); the check runs with VERIF_REPO pointing at it and
with evidence/replay output redirected by VERIF_SELFVAL=1 (evidence of the unchanged tree is not overwritten).
"""
import concurrent.futures as cf
import json
import os
import shutil
import subprocess
import sys
import tempfile

ROOT = os.path.dirname(os.path.dirname(os.path.abspath(__file__)))


def run_one(pid, m, tier):
    d = tempfile.mkdtemp(prefix="nessai-mut-", dir="/tmp")
    try:
        shutil.copytree("/repo/nessai", os.path.join(d, "nessai"), ignore=shutil.ignore_patterns("__pycache__"))
        for ed in m.get("edits", [m]):
            path = os.path.join(d, ed["file"])
            s = open(path).read()
            if s.count(ed["old"]) < 1:
                return m["name"], "NOT-APPLICABLE (pattern not found)", ""
            s = s.replace(ed["old"], ed["new"], ed.get("count", 1))
            open(path, "w").write(s)
        env = dict(os.environ, VERIF_REPO=d, VERIF_SELFVAL="1")
        p = subprocess.run([os.path.join(ROOT, "check"), pid, "--tier", tier] + m.get("args", []), env=env, capture_output=True, text=True,
                           timeout=3600)
        lines = [l for l in p.stdout.splitlines() if l.startswith(("VIOLATION", "KNOWN-FINDING", "INCONCLUSIVE")) or "witness" in l]
        verdict = "CAUGHT" if p.returncode == 1 and any(l.startswith("VIOLATION") for l in lines) else f"MISSED (rc={p.returncode})"
        return m["name"], verdict, "\n".join(lines[:4]) + ("" if (p.returncode == 0 or verdict == "CAUGHT") else "\n" + p.stdout[-1500:] + p.stderr[-1500:])
    finally:
        shutil.rmtree(d, ignore_errors=True)


def main():
    args = [a for a in sys.argv[1:] if not a.startswith("--")]
    tier = "quick"
    jobs = 4
    for i, a in enumerate(sys.argv):
        if a == "--tier":
            tier = sys.argv[i + 1]
        if a == "--jobs":
            jobs = int(sys.argv[i + 1])
    args = [a for a in args if a not in (tier, str(jobs))]
    pid, names = args[0], args[1:]
    muts = json.load(open(os.path.join(ROOT, "selfval", "mutants.json")))[pid]
    if names:
        muts = [m for m in muts if m["name"] in names]
    with cf.ThreadPoolExecutor(jobs) as ex:
        for name, verdict, detail in ex.map(lambda m: run_one(pid, m, tier), muts):
            print(f"{pid} {name}: {verdict}")
            if detail:
                print("    " + detail.replace("\n", "\n    "))


if __name__ == "__main__":
    main()
